(* Json.v — the JSON subset cacache's index relies on: serde_json's compact serializer and its
   recursive-descent parser (whitespace, escapes incl. \uXXXX with surrogate pairs, number lexing,
   recursion limit 128).  Floats are lexed but carried as raw text ([JFloat]): values containing one
   are outside the modelled domain (the runner reports them as "unmodelled", never compares them). *)
From CC Require Import Bytes Codec Utf8.
Local Open Scope N_scope.

Inductive jv :=
| JNull
| JBool (b : bool)
| JInt (z : Z)
| JFloat (raw : bytes)
| JStr (s : bytes)
| JArr (l : list jv)
| JObj (m : list (bytes * jv)).

(* ---------- serializer (serde_json::to_string) ---------- *)
Definition esc (b : byte) : bytes :=
  match b with
  | x22 => [x5c; x22]
  | x5c => [x5c; x5c]
  | x08 => [x5c; x62]
  | x0c => [x5c; x66]
  | x0a => [x5c; x6e]
  | x0d => [x5c; x72]
  | x09 => [x5c; x74]
  | _ => let n := b2n b in
         if n <? 32 then [x5c; x75; x30; x30; hexd (n / 16); hexd (n mod 16)] else [b]
  end.

Definition ser_string (s : bytes) : bytes := x22 :: flat_map esc s ++ [x22].

Definition ser_int (z : Z) : bytes :=
  match z with
  | Z0 => [x30]
  | Zpos p => dec_of_N (Npos p)
  | Zneg p => x2d :: dec_of_N (Npos p)
  end.

Fixpoint ser (v : jv) : bytes :=
  match v with
  | JNull => bs "null"
  | JBool true => bs "true"
  | JBool false => bs "false"
  | JInt z => ser_int z
  | JFloat raw => raw
  | JStr s => ser_string s
  | JArr l =>
      x5b :: (fix go (l : list jv) : bytes :=
                match l with
                | [] => []
                | v :: t => ser v ++ match t with [] => [] | _ => x2c :: go t end
                end) l ++ [x5d]
  | JObj m =>
      x7b :: (fix go (m : list (bytes * jv)) : bytes :=
                match m with
                | [] => []
                | (k, v) :: t => ser_string k ++ x3a :: ser v ++ match t with [] => [] | _ => x2c :: go t end
                end) m ++ [x7d]
  end.

(* ---------- parser ---------- *)
Inductive pres (A : Type) :=
| POk (a : A) (rest : bytes)
| PFail            (* syntax error: serde_json returns Err *)
| PFuel.           (* fuel exhausted: excluded by [parse_json]'s choice of fuel *)
Arguments POk {A}. Arguments PFail {A}. Arguments PFuel {A}.

Definition is_ws (b : byte) : bool :=
  match b with x20 | x0a | x0d | x09 => true | _ => false end.

Fixpoint skip_ws (l : bytes) : bytes :=
  match l with
  | b :: t => if is_ws b then skip_ws t else l
  | [] => []
  end.

Definition hex4 (a b c d : byte) : option N :=
  match unhex a, unhex b, unhex c, unhex d with
  | Some ha, Some hb, Some hc, Some hd => Some (ha * 4096 + hb * 256 + hc * 16 + hd)
  | _, _, _, _ => None
  end.

(* one (possibly escaped) character of a string body, as UTF-8 bytes *)
Definition parse_char (l : bytes) : option (bytes * bytes) :=
  match l with
  | x5c :: e :: t =>
      match e with
      | x22 => Some ([x22], t) | x5c => Some ([x5c], t) | x2f => Some ([x2f], t)
      | x62 => Some ([x08], t) | x66 => Some ([x0c], t) | x6e => Some ([x0a], t)
      | x72 => Some ([x0d], t) | x74 => Some ([x09], t)
      | x75 =>
          match t with
          | a :: b :: c :: d :: t' =>
              match hex4 a b c d with
              | Some n =>
                  if (56320 <=? n) && (n <=? 57343) then None            (* lone trailing surrogate *)
                  else if (55296 <=? n) && (n <=? 56319) then             (* leading surrogate *)
                    match t' with
                    | x5c :: x75 :: a2 :: b2 :: c2 :: d2 :: t'' =>
                        match hex4 a2 b2 c2 d2 with
                        | Some n2 =>
                            if (56320 <=? n2) && (n2 <=? 57343)
                            then Some (utf8_encode ((n - 55296) * 1024 + (n2 - 56320) + 65536), t'')
                            else None
                        | None => None end
                    | _ => None end
                  else Some (utf8_encode n, t')
              | None => None end
          | _ => None end
      | _ => None
      end
  | b :: t => if (b2n b <? 32) || Byte.eqb b x22 || Byte.eqb b x5c then None else Some ([b], t)
  | [] => None
  end.

(* body of a string after the opening quote; the first argument is fuel (any list at least as long
   as the input) *)
Fixpoint parse_body (fuel l : bytes) (acc : bytes) : option (bytes * bytes) :=
  match fuel with
  | [] => None
  | _ :: fuel' =>
      match l with
      | x22 :: t => Some (rev acc, t)
      | _ => match parse_char l with
             | Some (bs', t) => parse_body fuel' t (rev_append bs' acc)
             | None => None end
      end
  end.

Definition parse_string_body (l : bytes) : option (bytes * bytes) := parse_body (x00 :: l) l [].

Fixpoint expect (lit : bytes) (l : bytes) : option bytes :=
  match lit with
  | [] => Some l
  | c :: lit' => match l with
                 | b :: t => if Byte.eqb b c then expect lit' t else None
                 | [] => None end
  end.

Definition is_digit (b : byte) : bool := match digit_val b with Some _ => true | None => false end.

(* the optional fraction / exponent of a number; returns the rest, [None] on a malformed tail,
   and whether anything was consumed *)
Fixpoint skip_digits (l : bytes) : bytes :=
  match l with b :: t => if is_digit b then skip_digits t else l | [] => [] end.

Definition frac_exp (l : bytes) : option (bool * bytes) :=
  let after_frac :=
    match l with
    | x2e :: d :: t => if is_digit d then Some (true, skip_digits t) else None
    | x2e :: [] => None
    | _ => Some (false, l)
    end in
  match after_frac with
  | None => None
  | Some (f, l1) =>
      match l1 with
      | e :: t =>
          if Byte.eqb e x65 || Byte.eqb e x45 then
            let t1 := match t with s :: t' => if Byte.eqb s x2b || Byte.eqb s x2d then t' else t | [] => t end in
            match t1 with
            | d :: t2 => if is_digit d then Some (true, skip_digits t2) else None
            | [] => None end
          else Some (f, l1)
      | [] => Some (f, l1)
      end
  end.

(* a number starting at [l] (first byte '-' or a digit) *)
Definition parse_number (l : bytes) : pres jv :=
  let '(neg, l0) := match l with x2d :: t => (true, t) | _ => (false, l) end in
  match l0 with
  | d :: t =>
      match digit_val d with
      | None => PFail
      | Some dv =>
          let '(mag, l1) :=
            if N.eqb dv 0 then (0, t) else take_digits t dv in
          if N.eqb dv 0 && match t with d2 :: _ => is_digit d2 | [] => false end then PFail
          else
            match frac_exp l1 with
            | None => PFail
            | Some (isfloat, l2) =>
                let consumed := lenN l - lenN l2 in
                if isfloat || (neg && N.eqb mag 0) then POk (JFloat (takeN consumed l)) l2
                else POk (JInt (if neg then Z.opp (Z.of_N mag) else Z.of_N mag)) l2
            end
      end
  | [] => PFail
  end.

Fixpoint pval (n : nat) (d : nat) (s : bytes) {struct n} : pres jv :=
  match n with
  | O => PFuel
  | S n' =>
      match skip_ws s with
      | [] => PFail
      | c :: r =>
          match c with
          | x6e => match expect (bs "ull") r with Some r' => POk JNull r' | None => PFail end
          | x74 => match expect (bs "rue") r with Some r' => POk (JBool true) r' | None => PFail end
          | x66 => match expect (bs "alse") r with Some r' => POk (JBool false) r' | None => PFail end
          | x22 => match parse_string_body r with Some (str, r') => POk (JStr str) r' | None => PFail end
          | x5b =>
              match d with
              | O => PFail
              | S d' =>
                  match skip_ws r with
                  | x5d :: r' => POk (JArr []) r'
                  | _ => parr n' d' r []
                  end
              end
          | x7b =>
              match d with
              | O => PFail
              | S d' =>
                  match skip_ws r with
                  | x7d :: r' => POk (JObj []) r'
                  | _ => pobj n' d' r []
                  end
              end
          | _ => if Byte.eqb c x2d || is_digit c then parse_number (c :: r) else PFail
          end
      end
  end
with parr (n : nat) (d : nat) (s : bytes) (acc : list jv) {struct n} : pres jv :=
  match n with
  | O => PFuel
  | S n' =>
      match pval n' d s with
      | POk v r =>
          match skip_ws r with
          | x2c :: r' => parr n' d r' (v :: acc)
          | x5d :: r' => POk (JArr (rev (v :: acc))) r'
          | _ => PFail
          end
      | PFail => PFail
      | PFuel => PFuel
      end
  end
with pobj (n : nat) (d : nat) (s : bytes) (acc : list (bytes * jv)) {struct n} : pres jv :=
  match n with
  | O => PFuel
  | S n' =>
      match skip_ws s with
      | x22 :: r =>
          match parse_string_body r with
          | Some (k, r1) =>
              match skip_ws r1 with
              | x3a :: r2 =>
                  match pval n' d r2 with
                  | POk v r3 =>
                      match skip_ws r3 with
                      | x2c :: r4 => pobj n' d r4 ((k, v) :: acc)
                      | x7d :: r4 => POk (JObj (rev ((k, v) :: acc))) r4
                      | _ => PFail
                      end
                  | PFail => PFail
                  | PFuel => PFuel
                  end
              | _ => PFail
              end
          | None => PFail
          end
      | _ => PFail
      end
  end.

(* serde_json's recursion limit: [remaining_depth] starts at 128, entering an array/object
   decrements it and fails on reaching 0, i.e. 127 nested containers are accepted. *)
Definition json_depth : nat := 127.

(* whole-text parse: one value, then only whitespace ([Deserializer::end]) *)
Definition parse_json (s : bytes) : pres jv :=
  match pval (2 * List.length s + 4) json_depth s with
  | POk v r => match skip_ws r with [] => POk v [] | _ => PFail end
  | PFail => PFail
  | PFuel => PFuel
  end.

(* ---------- serde_json::Value normal form ---------- *)
(* objects are BTreeMap<String, Value>: sorted by key bytes, a duplicate key keeps the last value *)
Fixpoint obj_insert (k : bytes) (v : jv) (m : list (bytes * jv)) : list (bytes * jv) :=
  match m with
  | [] => [(k, v)]
  | (k', v') :: t =>
      if bytes_eqb k k' then (k, v) :: t
      else if bytes_ltb k k' then (k, v) :: m
      else (k', v') :: obj_insert k v t
  end.

Fixpoint canon (v : jv) : jv :=
  match v with
  | JArr l => JArr (map canon l)
  | JObj m =>
      JObj ((fix go (m : list (bytes * jv)) (acc : list (bytes * jv)) : list (bytes * jv) :=
               match m with
               | [] => acc
               | (k, v) :: t => go t (obj_insert k (canon v) acc)
               end) m [])
  | _ => v
  end.

(* inside the modelled domain: no floats, integers representable as i64/u64 *)
Fixpoint modelled (v : jv) : bool :=
  match v with
  | JFloat _ => false
  | JInt z => (Z.leb (-9223372036854775808) z && Z.ltb z 18446744073709551616)%Z
  | JArr l => forallb modelled l
  | JObj m => forallb (fun kv => modelled (snd kv)) m
  | _ => true
  end.

Fixpoint jv_eqb (a b : jv) : bool :=
  match a, b with
  | JNull, JNull => true
  | JBool x, JBool y => Bool.eqb x y
  | JInt x, JInt y => Z.eqb x y
  | JFloat x, JFloat y => bytes_eqb x y
  | JStr x, JStr y => bytes_eqb x y
  | JArr x, JArr y =>
      (fix go (x y : list jv) : bool :=
         match x, y with
         | [], [] => true
         | a :: x', b :: y' => jv_eqb a b && go x' y'
         | _, _ => false end) x y
  | JObj x, JObj y =>
      (fix go (x y : list (bytes * jv)) : bool :=
         match x, y with
         | [], [] => true
         | (ka, a) :: x', (kb, b) :: y' => bytes_eqb ka kb && jv_eqb a b && go x' y'
         | _, _ => false end) x y
  | _, _ => false
  end.
