(* Fs.v — the abstract filesystem the library talks to, and the abstract steps ("system calls" at
   the granularity that matters to the properties).  [exec] is our reading of POSIX/Linux; it is
   modelled, not verified (DESIGN section 9). *)
From CC Require Import Bytes Codec.
Local Open Scope N_scope.

Definition name := bytes.
Definition path := list name.                 (* relative to the cache root *)

Inductive loc :=
| InCache (p : path)
| Ext (n : name).                             (* a file of the caller, outside the cache *)

(* what a symlink holds: an absolute path to a caller file, or text that does not resolve
   (relative text is resolved by the kernel against the link's own directory, where nothing lives) *)
Inductive linkt := LAbs (n : name) | LDangling (text : bytes).

Inductive node :=
| File (d : bytes)
| Dir
| Symlink (t : linkt).

Definition path_eqb (a b : path) : bool := list_eqb bytes_eqb a b.
Definition loc_eqb (a b : loc) : bool :=
  match a, b with
  | InCache p, InCache q => path_eqb p q
  | Ext n, Ext m => bytes_eqb n m
  | _, _ => false
  end.

Definition fs := list (loc * node).

Fixpoint lookup (f : fs) (l : loc) : option node :=
  match f with
  | [] => None
  | (l', n) :: t => if loc_eqb l' l then Some n else lookup t l
  end.

Fixpoint remove (f : fs) (l : loc) : fs :=
  match f with
  | [] => []
  | (l', n) :: t => if loc_eqb l' l then remove t l else (l', n) :: remove t l
  end.

Definition update (f : fs) (l : loc) (n : node) : fs := (l, n) :: remove f l.

Inductive errno := ENOENT | EEXIST | ENOTDIR | EISDIR | EINVAL | ENOSPC | EIO | EACCES | EMFILE
                 | ELOOP | EOPNOTSUPP | ENOTEMPTY.

Inductive ret :=
| ROk
| RBytes (d : bytes)
| RBool (b : bool)
| RName (n : name)
| RLocs (l : list loc)
| RNum (n : N)
| RErr (e : errno).

Inductive sys :=
| MkdirAll (p : path)                 (* DirBuilder::recursive(true).create / create_dir_all *)
| CreateTmp                           (* NamedTempFile::new_in(cache/tmp): fresh name, O_EXCL *)
| Fallocate (l : loc) (n : N)         (* posix_fallocate(fd, 0, n) on an empty file *)
| MmapStore (l : loc) (off : N) (d : bytes)   (* store through a shared mapping *)
| Truncate (l : loc) (n : N)          (* ftruncate to n <= current length *)
| WriteAppend (l : loc) (d : bytes)   (* write(2) at the end of the writer's private temp file *)
| Rename (src dst : loc)
| Unlink (l : loc)
| CreateIfMissing (l : loc)           (* open(O_CREAT|O_APPEND) of a bucket *)
| Append (l : loc) (d : bytes)        (* one write(2) on the O_APPEND descriptor *)
| ReadFile (l : loc)                  (* whole file, following symlinks *)
| Exists (l : loc)                    (* stat, following symlinks *)
| Link (src dst : loc)
| SymlinkTo (t : linkt) (dst : loc)
| CopyFile (src dst : loc)
| Reflink (src dst : loc)
| WalkFiles (p : path)                (* walkdir: every non-directory entry below p *)
| ReadDir (p : path)                  (* names of the children of p *)
| RemoveDirAll (p : path).

(* ---- helpers ---- *)
Fixpoint is_prefix (a b : path) : bool :=
  match a, b with
  | [], _ => true
  | x :: a', y :: b' => bytes_eqb x y && is_prefix a' b'
  | _ :: _, [] => false
  end.

Definition parent (p : path) : path := removelast p.

(* the cache root itself always exists *)
Definition is_dir (f : fs) (p : path) : bool :=
  match p with
  | [] => true
  | _ => match lookup f (InCache p) with Some Dir => true | _ => false end
  end.

Definition parent_ok (f : fs) (l : loc) : bool :=
  match l with
  | InCache p => is_dir f (parent p)
  | Ext _ => true
  end.

(* all proper, non-empty prefixes of p followed by p itself, shortest first *)
Fixpoint prefixes_from (pre : path) (p : path) : list path :=
  match p with
  | [] => []
  | x :: t => (pre ++ [x]) :: prefixes_from (pre ++ [x]) t
  end.
Definition prefixes (p : path) : list path := prefixes_from [] p.

Fixpoint mkdirs (f : fs) (ps : list path) : ret * fs :=
  match ps with
  | [] => (ROk, f)
  | p :: t =>
      match lookup f (InCache p) with
      | None => mkdirs (update f (InCache p) Dir) t
      | Some Dir => mkdirs f t
      | Some _ => (RErr (match t with [] => EEXIST | _ => ENOTDIR end), f)
      end
  end.

(* follow a symlink at most once (links created by the library point at caller files) *)
Definition resolve (f : fs) (l : loc) : option node :=
  match lookup f l with
  | Some (Symlink (LAbs n)) =>
      match lookup f (Ext n) with
      | Some (Symlink _) => None
      | x => x end
  | Some (Symlink (LDangling _)) => None
  | x => x
  end.

Definition tmp_dir : path := [bs "tmp"].

(* a temp name that no file under tmp/ has: strictly longer than every existing one (real names are random;
   every comparison canonicalises them) *)
Fixpoint tmp_names (f : fs) : list name :=
  match f with
  | [] => []
  | (InCache [t; n], _) :: r => if bytes_eqb t (bs "tmp") then n :: tmp_names r else tmp_names r
  | _ :: r => tmp_names r
  end.
Definition fresh (f : fs) : name := x54 :: List.concat (tmp_names f).

Definition zeros (n : N) : bytes := N.iter n (fun l => x00 :: l) [].

Definition store_at (d : bytes) (off : N) (s : bytes) : bytes :=
  takeN off d ++ s ++ dropN (off + lenN s) d.

Definition under (p : path) (l : loc) : bool :=
  match l with InCache q => is_prefix p q | Ext _ => false end.

Definition strictly_under (p : path) (l : loc) : bool :=
  match l with InCache q => is_prefix p q && negb (path_eqb p q) | Ext _ => false end.

Definition child_of (p : path) (l : loc) : list name :=
  match l with
  | InCache q => if is_prefix p q && Nat.eqb (List.length q) (S (List.length p)) then
                   match rev q with n :: _ => [n] | [] => [] end else []
  | Ext _ => []
  end.

Definition exec (c : sys) (f : fs) : ret * fs :=
  match c with
  | MkdirAll p => mkdirs f (prefixes p)
  | CreateTmp =>
      if is_dir f tmp_dir then
        let n := fresh f in (RName n, update f (InCache (tmp_dir ++ [n])) (File []))
      else (RErr ENOENT, f)
  | Fallocate l n =>
      match lookup f l with
      | Some (File d) => if N.eqb n 0 then (RErr EINVAL, f)
                         else (ROk, update f l (File (d ++ zeros (n - lenN d))))
      | _ => (RErr ENOENT, f)
      end
  (* the next three act through the writer's open descriptor (mapping, ftruncate, write): when the name is gone — the
     cache was cleared under the writer — they still succeed, on an inode no path reaches: nothing changes in the tree *)
  | MmapStore l off s =>
      match lookup f l with
      | Some (File d) => if off + lenN s <=? lenN d then (ROk, update f l (File (store_at d off s)))
                         else (RErr EINVAL, f)
      | None => (ROk, f)
      | _ => (RErr ENOENT, f)
      end
  | Truncate l n =>
      match lookup f l with
      | Some (File d) => (ROk, update f l (File (takeN n d)))
      | None => (ROk, f)
      | _ => (RErr ENOENT, f)
      end
  | WriteAppend l s =>
      match lookup f l with
      | Some (File d) => (RNum (lenN s), update f l (File (d ++ s)))
      | None => (RNum (lenN s), f)
      | _ => (RErr ENOENT, f)
      end
  | Rename src dst =>
      match lookup f src with
      | Some n =>
          if parent_ok f dst then
            match lookup f dst with
            | Some Dir => (RErr EISDIR, f)
            | _ => (ROk, update (remove f src) dst n)
            end
          else (RErr ENOENT, f)
      | None => (RErr ENOENT, f)
      end
  | Unlink l =>
      match lookup f l with
      | Some Dir => (RErr EISDIR, f)
      | Some _ => (ROk, remove f l)
      | None => (RErr ENOENT, f)
      end
  | CreateIfMissing l =>
      match lookup f l with
      | Some Dir => (RErr EISDIR, f)
      | Some (Symlink _) => (RErr ELOOP, f)
      | Some (File _) => (ROk, f)
      | None => if parent_ok f l then (ROk, update f l (File [])) else (RErr ENOENT, f)
      end
  | Append l s =>
      match lookup f l with
      | Some (File d) => (ROk, update f l (File (d ++ s)))
      | _ => (RErr ENOENT, f)
      end
  | ReadFile l =>
      match resolve f l with
      | Some (File d) => (RBytes d, f)
      | Some Dir => (RErr EISDIR, f)
      | _ => (RErr ENOENT, f)
      end
  | Exists l => (RBool (match resolve f l with Some _ => true | None => false end), f)
  | Link src dst =>
      match lookup f src with
      | Some Dir => (RErr EACCES, f)
      | Some n =>
          match lookup f dst with
          | Some _ => (RErr EEXIST, f)
          | None => if parent_ok f dst then (ROk, update f dst n) else (RErr ENOENT, f)
          end
      | None => (RErr ENOENT, f)
      end
  | SymlinkTo t dst =>
      match lookup f dst with
      | Some _ => (RErr EEXIST, f)
      | None => if parent_ok f dst then (ROk, update f dst (Symlink t)) else (RErr ENOENT, f)
      end
  | CopyFile src dst =>
      match resolve f src with
      | Some (File d) =>
          match lookup f dst with
          | Some Dir => (RErr EISDIR, f)
          | _ => if parent_ok f dst then (RNum (lenN d), update f dst (File d)) else (RErr ENOENT, f)
          end
      | Some Dir => (RErr EINVAL, f)
      | _ => (RErr ENOENT, f)
      end
  | Reflink src dst =>
      match resolve f src with
      | Some (File _) => (RErr EOPNOTSUPP, f)     (* this ext4 never reflinks; [reflink] does not fall back *)
      | _ => (RErr ENOENT, f)
      end
  | WalkFiles p =>
      if is_dir f p then
        (RLocs (map fst (filter (fun ln => strictly_under p (fst ln) &&
                                           match snd ln with Dir => false | _ => true end) f)), f)
      else (RErr ENOENT, f)
  | ReadDir p =>
      if is_dir f p then (RLocs (map (fun n => InCache (p ++ [n])) (flat_map (fun ln => child_of p (fst ln)) f)), f)
      else (RErr ENOENT, f)
  | RemoveDirAll p =>
      match lookup f (InCache p) with
      | Some Dir => (ROk, filter (fun ln => negb (under p (fst ln))) f)
      | Some _ => (RErr ENOTDIR, f)
      | None => (RErr ENOENT, f)
      end
  end.
