(* Bytes.v — byte strings and small list utilities.  Model file: definitions only. *)
From Coq Require Export List NArith ZArith Bool.
From Coq Require Export Strings.Byte Strings.String.
Export ListNotations.

Definition bytes := list byte.

Definition nl  : byte := x0a.
Definition cr  : byte := x0d.
Definition tab : byte := x09.

Definition b2n (b : byte) : N := Byte.to_N b.
Definition n2b (n : N) : byte := match Byte.of_N n with Some b => b | None => x00 end.

Definition bs (s : string) : bytes := list_byte_of_string s.

Fixpoint bytes_eqb (a b : bytes) : bool :=
  match a, b with
  | [], [] => true
  | x :: a', y :: b' => Byte.eqb x y && bytes_eqb a' b'
  | _, _ => false
  end.

(* lexicographic comparison on unsigned byte values: Rust's [String]/[&[u8]] Ord *)
Fixpoint bytes_ltb (a b : bytes) : bool :=
  match a, b with
  | _, [] => false
  | [], _ :: _ => true
  | x :: a', y :: b' =>
      if N.ltb (b2n x) (b2n y) then true
      else if N.ltb (b2n y) (b2n x) then false
      else bytes_ltb a' b'
  end.

Fixpoint lenN (l : bytes) : N :=
  match l with [] => 0%N | _ :: t => N.succ (lenN t) end.

(* first n elements / rest, n : N, structural on the list *)
Fixpoint takeN {A} (n : N) (l : list A) : list A :=
  match l with
  | [] => []
  | x :: t => if N.eqb n 0 then [] else x :: takeN (N.pred n) t
  end.
Fixpoint dropN {A} (n : N) (l : list A) : list A :=
  match l with
  | [] => []
  | x :: t => if N.eqb n 0 then l else dropN (N.pred n) t
  end.

Fixpoint list_eqb {A} (eqb : A -> A -> bool) (a b : list A) : bool :=
  match a, b with
  | [], [] => true
  | x :: a', y :: b' => eqb x y && list_eqb eqb a' b'
  | _, _ => false
  end.

Definition option_eqb {A} (eqb : A -> A -> bool) (a b : option A) : bool :=
  match a, b with
  | None, None => true
  | Some x, Some y => eqb x y
  | _, _ => false
  end.

(* standard separator split: [split sep (a ++ sep :: b) = split sep a ++ split sep b] *)
Fixpoint split (sep : byte) (l : bytes) : list bytes :=
  match l with
  | [] => [[]]
  | b :: t =>
      if Byte.eqb b sep then [] :: split sep t
      else match split sep t with
           | s :: ss => (b :: s) :: ss
           | [] => [[b]]
           end
  end.

Fixpoint intercalate (sep : bytes) (l : list bytes) : bytes :=
  match l with
  | [] => []
  | [x] => x
  | x :: t => x ++ sep ++ intercalate sep t
  end.
