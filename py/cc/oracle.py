"""Direct oracles: predicates over the implementation's observable behaviour that restate a property
without the Coq model.  `RefCache` is the two-minute abstract spec (key -> entry, address -> bytes) in
Python; it abstains (returns None) once the cache has been damaged behind its back."""
import base64, json
from . import hashes

RANK = {a: i for i, a in enumerate(hashes.ALGOS)}

def parse_sri(text):
    hs = []
    for w in text.split():
        parts = w.split("-")
        if len(parts) < 2 or parts[0] not in RANK:
            return None
        hs.append((parts[0], parts[1]))
    hs.sort(key=lambda h: RANK[h[0]])
    return hs

DLEN = {"sha1": 20, "sha256": 32, "sha384": 48, "sha512": 64, "xxh3": 16}
def well_formed(hs):
    """every hash is the base64 text of a digest of its algorithm's length (what the cache itself writes)"""
    try:
        return bool(hs) and all(len(base64.b64decode(d, validate=True)) == DLEN[a] for a, d in hs)
    except Exception:
        return False

def sri_text(hs):
    return " ".join(f"{a}-{d}" for a, d in hs)

def addr_of(hs):
    return hs[0] if hs else None

class RefCache:
    def __init__(self):
        self.idx, self.store, self.w, self.r = {}, {}, {}, {}
        self.ext = {}
        self.l = {}
        self.buck = set()                                # keys whose bucket file exists
        self.buckets = {}
        self.tainted = False

    def _now(self, i):
        from .ops import PSEUDO_BASE
        return PSEUDO_BASE + i

    def _entry(self, key, hs, size, time, meta, raw):
        return {"key": key, "sri": sri_text(hs), "size": size, "time": time,
                "meta": json.dumps(meta, separators=(",", ":"), ensure_ascii=False, sort_keys=True).encode().hex(), "raw": raw}

    def _read_addr(self, hs):
        a = addr_of(hs)
        if a not in self.store:
            return ("err", "Io")
        d = self.store[a]
        if isinstance(d, tuple):                         # a link: the caller's file as it is now
            if d[1] in self.ext and self.ext[d[1]] is None:
                return None
            d = self.ext.get(d[1])
            if d is None:
                return ("err", "Io")
        if a[1] != base64.b64encode(hashes.digest(a[0], d)).decode():
            return ("err", "Integrity")
        return ("ok", "bytes", d.hex())

    def _link(self, a, target, data):
        """the address [a] comes to hold a link to the caller's file; False = no opinion from here on"""
        cur = self.store.get(a)
        if isinstance(cur, tuple):
            t = self.ext.get(cur[1])
            if t is None or t != data:
                self.tainted = True; return False        # an older link whose target is gone or holds other bytes: no opinion
        elif cur is None:
            self.store[a] = ("link", target)
        elif cur != data:
            self.tainted = True; return False
        return True

    def _lookup(self, key):
        return self.idx.get(key)

    def step(self, i, op):
        """expected canonical result of op number i, or None to abstain"""
        o = op["op"]
        if o == "wabandon" or getattr(self, "_abstain", False):
            # cancelled writes: what reaches the file depends on the writer's internal state machine; the simple
            # reference has no opinion from here on (the Coq model does: Sess.v OAbandon)
            self._abstain = True
            return None
        if o in ("chdir", "cmptree", "refcheck"):
            return None
        if o == "damage" and op["loc"].startswith("e:") and not self.tainted:
            # a file of the caller (a link target), not the cache: the reference keeps track of its bytes
            name = op["loc"][2:]
            if any(l["target"] == name for l in self.l.values()):
                self.tainted = True                      # changed under an open linker: no opinion
            elif op["kind"] == "set":
                self.ext[name] = bytes.fromhex(op["data"])
            elif op["kind"] == "del":
                self.ext.pop(name, None)
            else:
                self.ext[name] = None                    # directory / symlink in its place: no opinion when it is used
            return None
        if o == "damage" and op["loc"].startswith("c:content-v2/") and op["kind"] in ("set", "rot", "del") and not self.tainted:
            # the bytes under an address are replaced behind the cache's back: the reference knows what is there now
            parts = op["loc"][2:].split("/")
            if len(parts) == 5:
                try:
                    a = (parts[1], base64.b64encode(bytes.fromhex(parts[2] + parts[3] + parts[4])).decode())
                except ValueError:
                    a = None
                if a is not None and not self.w and not self.r:
                    if op["kind"] == "del": self.store.pop(a, None)
                    else: self.store[a] = bytes.fromhex(op["data"])
                    return None
        if o == "damage":
            self.tainted = True
            if op["kind"] == "set" and op["loc"].startswith("c:index-v5/"):
                self.buckets[op["loc"]] = bytes.fromhex(op["data"])
            elif op["kind"] != "mkdir":
                self.buckets.pop(op["loc"], None)
            return None
        if self.tainted:
            # C06: on a damaged bucket a lookup returns what the undamaged records imply (naive reference
            # reader over the bytes that were put there), as long as nothing was appended since
            if o in ("find", "metadata"):
                from . import ref
                key = bytes.fromhex(op["key"])
                loc = ref.loc_c(ref.bucket_rel(key))
                if loc in self.buckets:
                    try:
                        obj = ref.naive_find(self.buckets[loc], key.decode())
                        # records outside the language the cache writes (fields missing, an integrity that is no digest):
                        # the properties do not say which of them count; no opinion
                        import hashlib as _hl
                        for ln in self.buckets[loc].split(b"\n"):
                            pr = (ln[:-1] if ln.endswith(b"\r") else ln).split(b"\t")
                            if len(pr) == 2 and _hl.sha256(pr[1]).hexdigest().encode() == pr[0]:
                                try:
                                    if not isinstance(json.loads(pr[1].decode("utf-8")), dict):
                                        return None          # a well-hashed record that is not a JSON object
                                except Exception:
                                    pass
                        for o2 in ref.naive_entries(self.buckets[loc]):
                            if o2.get("key") == key.decode():
                                if not all(f in o2 for f in ("integrity", "time", "size", "metadata")):
                                    return None
                                if o2["integrity"] is not None and not well_formed(parse_sri(o2["integrity"]) or []):
                                    return None
                    except Exception:
                        return None
                    if obj is None:
                        return ("ok", "meta", None)
                    hs = parse_sri(obj["integrity"])
                    if hs is None or not well_formed(hs):
                        return None                      # a record whose integrity is not a digest: no opinion
                    raw = obj.get("raw_metadata")
                    return ("ok", "meta", {"key": op["key"], "sri": sri_text(hs), "time": obj["time"], "size": obj["size"],
                            "meta": json.dumps(obj["metadata"], separators=(",", ":"), ensure_ascii=False, sort_keys=True).encode().hex(),
                            "raw": None if raw is None else bytes(raw).hex(), "modelled": True})
            elif o in ("insert", "delete", "remove", "write", "commit", "remove_opts", "clear"):
                self.buckets.clear()
            return None
        if o in ("write", "write_hash"):
            algo, data = op.get("algo", "sha256"), bytes.fromhex(op["data"])
            hs = [(algo, base64.b64encode(hashes.digest(algo, data)).decode())]
            self.store[hs[0]] = data
            if o == "write":
                self.buck.add(op["key"])
                self.idx[op["key"]] = self._entry(op["key"], hs, len(data), self._now(i), None, None)
            return ("ok", "sri", sri_text(hs))
        if o == "open":
            self.w[op["w"]] = {"op": op, "data": b""}
            return ("ok", "unit")
        if o == "wchunk":
            w = self.w.get(op["w"])
            if w is None: return ("badarg",)
            d = bytes.fromhex(op["data"])
            w["data"] += d
            return ("ok", "num", len(d))
        if o == "drop":
            return ("ok", "unit") if self.w.pop(op["w"], None) is not None else ("badarg",)
        if o == "commit":
            w = self.w.pop(op["w"], None)
            if w is None: return ("badarg",)
            wo, data = w["op"], w["data"]
            algo = wo.get("algo", "sha256")
            hs = [(algo, base64.b64encode(hashes.digest(algo, data)).decode())]
            self.store[hs[0]] = data
            final = hs
            if "sri" in wo:
                decl = parse_sri(wo["sri"])
                if not any(h == hs[0] for h in decl):
                    return ("err", "Integrity")
                final = decl
            if "size" in wo and wo["size"] != len(data):
                return ("err", "SizeMismatch", wo["size"], len(data))
            if "key" in wo:
                self.buck.add(wo["key"])
                t = int(wo["time"]) if "time" in wo else self._now(i)
                self.idx[wo["key"]] = self._entry(wo["key"], final, wo.get("size", len(data)), t, wo.get("meta"), wo.get("raw"))
                return ("ok", "sri", sri_text(final))
            return ("ok", "sri", sri_text(hs))
        if o == "link_to":
            d = self.ext.get(op["target"])
            if d is None:
                self.tainted = True; return None
            hs = [("sha256", base64.b64encode(hashes.digest("sha256", d)).decode())]
            if not self._link(hs[0], op["target"], d):
                return None
            if "key" in op:
                self.buck.add(op["key"])
                self.idx[op["key"]] = self._entry(op["key"], hs, len(d), self._now(i), None, None)
            return ("ok", "sri", sri_text(hs))
        if o == "lopen":
            d = self.ext.get(op["target"])
            if d is None:
                self.tainted = True; return None
            self.l[op["l"]] = {"op": op, "target": op["target"], "data": d, "pos": 0}
            return ("ok", "unit")
        if o == "lchunk":
            l = self.l.get(op["l"])
            if l is None: return ("badarg",)
            c = l["data"][l["pos"]: l["pos"] + op["n"]]; l["pos"] += len(c)
            return ("ok", "bytes", c.hex())
        if o == "ldrop":
            return ("ok", "unit") if self.l.pop(op["l"], None) is not None else ("badarg",)
        if o == "lcommit":
            l = self.l.pop(op["l"], None)
            if l is None: return ("badarg",)
            lo, data = l["op"], l["data"]
            algo = "sha256" if lo.get("plain") else lo.get("algo", "sha256")
            hs = [(algo, base64.b64encode(hashes.digest(algo, data)).decode())]
            final = hs
            if not self._link(hs[0], l["target"], data):     # the link is made first, like a writer's content
                return None
            if "sri" in lo and not lo.get("plain"):
                decl = parse_sri(lo["sri"])
                if not any(h == hs[0] for h in decl):
                    return ("err", "Integrity")
                final = decl
            if "size" in lo and not lo.get("plain") and lo["size"] != len(data):
                return ("err", "SizeMismatch", lo["size"], len(data))
            if "key" in lo:
                self.buck.add(lo["key"])
                plain = lo.get("plain")
                t = int(lo["time"]) if ("time" in lo and not plain) else self._now(i)
                self.idx[lo["key"]] = self._entry(lo["key"], final, len(data) if plain else lo.get("size", len(data)), t,
                                                  None if plain else lo.get("meta"), None if plain else lo.get("raw"))
            return ("ok", "sri", sri_text(final))
        if o == "insert":
            hs = parse_sri(op["sri"]) if "sri" in op else None
            t = int(op["time"]) if "time" in op else self._now(i)
            self.buck.add(op["key"])
            if hs is None:
                self.idx.pop(op["key"], None)
                return ("ok", "sri", "sha1-deadbeef")
            self.idx[op["key"]] = self._entry(op["key"], hs, op.get("size", 0), t, op.get("meta"), op.get("raw"))
            return ("ok", "sri", sri_text(hs))
        if o in ("delete", "remove") or (o == "remove_opts" and not op.get("fully")):
            self.buck.add(op["key"])
            self.idx.pop(op["key"], None)
            return ("ok", "unit")
        if o == "remove_opts" and op.get("fully"):
            if op["key"] not in self.buck:
                self.tainted = True; return None         # no bucket file for this key: the call fails (nothing to remove)
            self.buck.discard(op["key"])
            e = self.idx.pop(op["key"], None)
            if e is not None:
                hs = parse_sri(e["sri"])
                if hs is None:
                    self.tainted = True; return None
                self.store.pop(addr_of(hs), None)
            return ("ok", "unit")
        if o in ("find", "metadata"):
            e = self._lookup(op["key"])
            return ("ok", "meta", None if e is None else dict(e, modelled=True))
        if o == "read":
            e = self._lookup(op["key"])
            if e is None: return ("err", "NotFound")
            return self._read_addr(parse_sri(e["sri"]))
        if o == "read_hash":
            return self._read_addr(parse_sri(op["sri"]))
        if o == "exists":
            a = addr_of(parse_sri(op["sri"]))
            if isinstance(self.store.get(a), tuple) and self.ext.get(self.store[a][1]) is None:
                return None                              # a link whose target is gone
            return ("ok", "bool", a in self.store)
        if o == "remove_hash":
            a = addr_of(parse_sri(op["sri"]))
            if a in self.store:
                del self.store[a]
                return ("ok", "unit")
            return ("err", "Io")
        if o == "list":
            if not self.ever_indexed():
                return None
            return ("ok", "list", [("meta", dict(e, modelled=True)) for e in self.idx.values()])
        if o == "clear":
            if self.w or self.l:
                self.tainted = True; return None         # open writers lose their temp files: no opinion on what they do next
            self.idx.clear(); self.store.clear(); self.buck.clear(); self._cleared = True
            return ("ok", "unit")
        return None

    def ever_indexed(self):
        return bool(self.idx) and not getattr(self, "_cleared", False)

def check_read_digest(op, ci):
    """C01: a successful checked retrieval by address returns bytes whose digest is that address."""
    if ci[0] == "ok" and op["op"] == "read_hash" and ci[1] == "bytes":
        hs = parse_sri(op["sri"])
        a = hs[0]
        return a[1] == base64.b64encode(hashes.digest(a[0], bytes.fromhex(ci[2]))).decode()
    return True
