"""Direct oracles: predicates over the implementation's observable behaviour that restate a property
without the Coq model.  `RefCache` is the two-minute abstract spec (key -> entry, address -> bytes) in
Python; it abstains (returns None) once the cache has been damaged behind its back."""
import base64, json
from . import hashes

RANK = {a: i for i, a in enumerate(hashes.ALGOS)}

def parse_sri(text):
    hs = []
    for w in text.split():
        parts = w.split("-")
        if len(parts) < 2 or parts[0] not in RANK:
            return None
        hs.append((parts[0], parts[1]))
    hs.sort(key=lambda h: RANK[h[0]])
    return hs

def sri_text(hs):
    return " ".join(f"{a}-{d}" for a, d in hs)

def addr_of(hs):
    return hs[0] if hs else None

class RefCache:
    def __init__(self):
        self.idx, self.store, self.w, self.r = {}, {}, {}, {}
        self.ext = {}
        self.buckets = {}
        self.tainted = False

    def _now(self, i):
        from .ops import PSEUDO_BASE
        return PSEUDO_BASE + i

    def _entry(self, key, hs, size, time, meta, raw):
        return {"key": key, "sri": sri_text(hs), "size": size, "time": time,
                "meta": json.dumps(meta, separators=(",", ":"), ensure_ascii=False).encode().hex(), "raw": raw}

    def _read_addr(self, hs):
        a = addr_of(hs)
        if a not in self.store:
            return ("err", "Io")
        d = self.store[a]
        if a[1] != base64.b64encode(hashes.digest(a[0], d)).decode():
            return ("err", "Integrity")
        return ("ok", "bytes", d.hex())

    def _lookup(self, key):
        return self.idx.get(key)

    def step(self, i, op):
        """expected canonical result of op number i, or None to abstain"""
        o = op["op"]
        if o == "wabandon" or getattr(self, "_abstain", False):
            # cancelled writes: what reaches the file depends on the writer's internal state machine; the simple
            # reference has no opinion from here on (the Coq model does: Sess.v OAbandon)
            self._abstain = True
            return None
        if o == "damage":
            self.tainted = True
            if op["kind"] == "set" and op["loc"].startswith("c:index-v5/"):
                self.buckets[op["loc"]] = bytes.fromhex(op["data"])
            elif op["kind"] != "mkdir":
                self.buckets.pop(op["loc"], None)
            return None
        if self.tainted:
            # C06: on a damaged bucket a lookup returns what the undamaged records imply (naive reference
            # reader over the bytes that were put there), as long as nothing was appended since
            if o in ("find", "metadata"):
                from . import ref
                key = bytes.fromhex(op["key"])
                loc = ref.loc_c(ref.bucket_rel(key))
                if loc in self.buckets:
                    try:
                        obj = ref.naive_find(self.buckets[loc], key.decode())
                    except Exception:
                        return None
                    if obj is None:
                        return ("ok", "meta", None)
                    hs = parse_sri(obj["integrity"])
                    if hs is None:
                        return None
                    raw = obj.get("raw_metadata")
                    return ("ok", "meta", {"key": op["key"], "sri": sri_text(hs), "time": obj["time"], "size": obj["size"],
                            "meta": json.dumps(obj["metadata"], separators=(",", ":"), ensure_ascii=False, sort_keys=True).encode().hex(),
                            "raw": None if raw is None else bytes(raw).hex(), "modelled": True})
            elif o in ("insert", "delete", "remove", "write", "commit", "remove_opts", "clear"):
                self.buckets.clear()
            return None
        if o in ("write", "write_hash"):
            algo, data = op.get("algo", "sha256"), bytes.fromhex(op["data"])
            hs = [(algo, base64.b64encode(hashes.digest(algo, data)).decode())]
            self.store[hs[0]] = data
            if o == "write":
                self.idx[op["key"]] = self._entry(op["key"], hs, len(data), self._now(i), None, None)
            return ("ok", "sri", sri_text(hs))
        if o == "open":
            self.w[op["w"]] = {"op": op, "data": b""}
            return ("ok", "unit")
        if o == "wchunk":
            w = self.w.get(op["w"])
            if w is None: return ("badarg",)
            d = bytes.fromhex(op["data"])
            w["data"] += d
            return ("ok", "num", len(d))
        if o == "drop":
            return ("ok", "unit") if self.w.pop(op["w"], None) is not None else ("badarg",)
        if o == "commit":
            w = self.w.pop(op["w"], None)
            if w is None: return ("badarg",)
            wo, data = w["op"], w["data"]
            algo = wo.get("algo", "sha256")
            hs = [(algo, base64.b64encode(hashes.digest(algo, data)).decode())]
            self.store[hs[0]] = data
            final = hs
            if "sri" in wo:
                decl = parse_sri(wo["sri"])
                if not any(h == hs[0] for h in decl):
                    return ("err", "Integrity")
                final = decl
            if "size" in wo and wo["size"] != len(data):
                return ("err", "SizeMismatch", wo["size"], len(data))
            if "key" in wo:
                t = int(wo["time"]) if "time" in wo else self._now(i)
                self.idx[wo["key"]] = self._entry(wo["key"], final, wo.get("size", len(data)), t, wo.get("meta"), wo.get("raw"))
                return ("ok", "sri", sri_text(final))
            return ("ok", "sri", sri_text(hs))
        if o == "insert":
            hs = parse_sri(op["sri"]) if "sri" in op else None
            t = int(op["time"]) if "time" in op else self._now(i)
            if hs is None:
                self.idx.pop(op["key"], None)
                return ("ok", "sri", "sha1-deadbeef")
            self.idx[op["key"]] = self._entry(op["key"], hs, op.get("size", 0), t, op.get("meta"), op.get("raw"))
            return ("ok", "sri", sri_text(hs))
        if o in ("delete", "remove") or (o == "remove_opts" and not op.get("fully")):
            self.idx.pop(op["key"], None)
            return ("ok", "unit")
        if o in ("find", "metadata"):
            e = self._lookup(op["key"])
            return ("ok", "meta", None if e is None else dict(e, modelled=True))
        if o == "read":
            e = self._lookup(op["key"])
            if e is None: return ("err", "NotFound")
            return self._read_addr(parse_sri(e["sri"]))
        if o == "read_hash":
            return self._read_addr(parse_sri(op["sri"]))
        if o == "exists":
            return ("ok", "bool", addr_of(parse_sri(op["sri"])) in self.store)
        if o == "remove_hash":
            a = addr_of(parse_sri(op["sri"]))
            if a in self.store:
                del self.store[a]
                return ("ok", "unit")
            return ("err", "Io")
        if o == "list":
            if not self.ever_indexed():
                return None
            return ("ok", "list", [("meta", dict(e, modelled=True)) for e in self.idx.values()])
        if o == "clear":
            self.idx.clear(); self.store.clear(); self._cleared = True
            return ("ok", "unit")
        return None

    def ever_indexed(self):
        return bool(self.idx) and not getattr(self, "_cleared", False)

def check_read_digest(op, ci):
    """C01: a successful checked retrieval by address returns bytes whose digest is that address."""
    if ci[0] == "ok" and op["op"] == "read_hash" and ci[1] == "bytes":
        hs = parse_sri(op["sri"])
        a = hs[0]
        return a[1] == base64.b64encode(hashes.digest(a[0], bytes.fromhex(ci[2]))).decode()
    return True
