"""check.py — entry point of every registered check:  check <ID> [--tier quick|thorough]  |  check replay <file>

Per run: (1) rebuild the Coq development, the extracted model driver and the harness flavours from the
current working trees; (2) Coq gate for the property (pinned statements compile, Print Assumptions inside the
allow-list, forbidden-keyword scan); (3) the property's correspondence suites (model vs implementation on the
same generated programs) and direct oracles; (4) evidence file; (5) VIOLATION / KNOWN-FINDING lines."""
import argparse, glob, hashlib, json, multiprocessing, os, random, re, subprocess, sys, time, traceback

VERIF = "/verif"
BUILD = VERIF + "/.build"
COQ = VERIF + "/coq"
OUT = os.environ.get("VERIF_OUT", VERIF)          # evidence/ and replays/ go here (seed evaluations redirect it)
sys.path.insert(0, VERIF + "/py")

from cc import gen, ops as O, oracle          # noqa: E402
from cc.run import run_program                 # noqa: E402
from cc.procs import ModelProc                 # noqa: E402

FORBIDDEN = re.compile(r"\b(Admitted|admit|Axiom|Axioms|Parameter|Parameters|Conjecture|Admit Obligations|bypass_check)\b|Unset Guard|Unset Positivity|Unset Universe|type-in-type|impredicative-set")
AXIOM_ALLOW = set()        # target: every property theorem is closed under the global context

def log(*a):
    print(*a, file=sys.stderr, flush=True)

def sh(cmd, timeout=1800, cwd=None, env=None):
    p = subprocess.run(cmd, shell=isinstance(cmd, str), cwd=cwd, env=env, stdout=subprocess.PIPE,
                       stderr=subprocess.STDOUT, timeout=timeout)
    return p.returncode, p.stdout.decode("utf-8", "replace")

# ------------------------------------------------------------------------------------------------ builds
def build_coq():
    os.makedirs(BUILD, exist_ok=True)
    if not os.path.exists(COQ + "/Makefile"):
        rc, out = sh("coq_makefile -f _CoqProject -o Makefile", cwd=COQ)
        if rc: return False, out
    rc, out = sh("timeout 1500 make -j16", cwd=COQ, timeout=1600)
    return rc == 0, out

def build_driver():
    d = BUILD + "/ocaml"
    os.makedirs(d, exist_ok=True)
    srcs = glob.glob(COQ + "/theories/*.vo") + [COQ + "/Extract.v", VERIF + "/ocaml/driver.ml"]
    exe = d + "/model_driver"
    if os.path.exists(exe) and all(os.path.getmtime(s) <= os.path.getmtime(exe) for s in srcs):
        return True, ""
    rc, out = sh(f"cd {d} && coqc -Q {COQ}/theories CC {COQ}/Extract.v && rm -f {COQ}/Extract.vo {COQ}/Extract.glob {COQ}/.Extract.aux"
                 f" && cp {VERIF}/ocaml/driver.ml . && ocamlfind ocamlopt -O2 -w -a model.mli model.ml driver.ml -o model_driver")
    return rc == 0, out

def build_harness(flavours, link_to=False):
    for f in flavours:
        rc, out = sh([VERIF + "/harness/build.sh", f] + (["link_to"] if link_to else []), timeout=1500)
        if rc:
            return False, out
    return True, ""

# ------------------------------------------------------------------------------------------------ coq gate
def coq_gate(pid):
    """returns dict(obligations, discharged, theorems, problems)"""
    res = {"obligations": 0, "discharged": 0, "theorems": [], "problems": []}
    for f in glob.glob(COQ + "/**/*.v", recursive=True):
        txt = re.sub(r"\(\*.*?\*\)", "", open(f).read(), flags=re.S)
        for m in FORBIDDEN.finditer(txt):
            res["problems"].append(f"forbidden keyword {m.group(0)!r} in {os.path.relpath(f, COQ)}")
    pf = f"{COQ}/props/{pid}.v"
    if not os.path.exists(pf):
        res["problems"].append(f"no statement file props/{pid}.v")
        return res
    gd = BUILD + "/coqgate"
    os.makedirs(gd, exist_ok=True)
    rc, out = sh(f"timeout 600 coqc -Q theories CC -Q proofs CC -Q props CC -w -notation-overridden,-deprecated "
                 f"-o {gd}/{pid}.vo props/{pid}.v", cwd=COQ, timeout=700)
    if rc:
        res["problems"].append(f"props/{pid}.v does not compile: {out[-600:]}")
        return res
    names = re.findall(r"Print Assumptions\s+([A-Za-z0-9_']+)\s*\.", open(pf).read())
    res["obligations"] = len(names)
    res["theorems"] = names
    chunks = re.split(r"(?=Closed under the global context|Axioms:|Section Variables:)", out)
    closed = out.count("Closed under the global context")
    ax = re.findall(r"Axioms:\n((?:.+\n?)+?)(?=\n\S|\Z)", out)
    bad = []
    for block in ax:
        for l in block.splitlines():
            m = re.match(r"^([A-Za-z0-9_.']+)\s*:", l)
            if m and m.group(1) not in AXIOM_ALLOW:
                bad.append(m.group(1))
    if bad:
        res["problems"].append(f"assumptions outside the allow-list: {sorted(set(bad))}")
    n_ax_ok = len(ax) if not bad else 0
    res["discharged"] = closed + n_ax_ok
    if res["discharged"] != res["obligations"]:
        res["problems"].append(f"{res['obligations']} Print Assumptions but {res['discharged']} acceptable answers")
    return res

# ------------------------------------------------------------------------------------------------ known findings
def load_known():
    known = []
    p = VERIF + "/KNOWN_FINDINGS.txt"
    if os.path.exists(p):
        for l in open(p):
            m = re.match(r"known:\s+property=(C\d+)\s+pattern=/(.*?)/\s+(.*)", l.strip())
            if m:
                known.append((m.group(1), re.compile(m.group(2)), m.group(3)))
    return known

# ------------------------------------------------------------------------------------------------ workers
_model = None
def _worker(task):
    global _model
    if _model is None:
        _model = ModelProc()
    prog, flavours, opts = task
    try:
        no_panic = opts.pop("_no_panic", False) if isinstance(opts, dict) else False
        # C20 looks at every call of the program even after a model/implementation disagreement (a panic may come later)
        r = run_program(prog, flavours=flavours, model=_model, stop_on_first=not no_panic, **opts)
        if no_panic:
            for i, st in enumerate(r["steps"]):
                if st[2] is not None and st[2][0] in ("panic", "hang", "dead") and st[3] is None:
                    r["steps"][i] = (st[0], st[1], st[2], "the call " + st[2][0] + "s (the model predicts the same: the code as written does)", st[4])
                    r["ok"] = False
    except Exception as e:
        try:
            _model.close()
        except Exception:
            pass
        _model = None
        return {"ok": False, "crash": traceback.format_exc()[-1500:], "prog": prog, "flavours": flavours}
    out = {"ok": r["ok"], "n": len(r["steps"]), "flavours": flavours}
    if opts.get("_no_panic"):
        pass
    classes = {}
    for op, cm, ci, reason, obs in r["steps"]:
        if ci is not None:
            c = op["op"] + ":" + ci[0] + (":" + str(ci[1]) if ci[0] == "err" else "")
            classes[c] = classes.get(c, 0) + 1
    out["classes"] = classes
    if r["ok"] and len(r["steps"]) == len(prog):
        # third voter: the small reference specification (oracle.py, written from the property texts) against the
        # implementation's answers on programs where model and implementation agree; a statistic, not a verdict
        try:
            rc = oracle.RefCache(); nop = nmis = 0; first = None
            for i, (op, st) in enumerate(zip(prog, r["steps"])):
                exp = rc.step(i, op)
                if exp is None or st[2] is None or op["op"] in ("damage", "cmptree", "refcheck", "chdir"):
                    continue
                nop += 1
                if O.results_equal(_strip_time(exp), _strip_time(st[2]), {}) is not None:
                    nmis += 1
                    if first is None:
                        first = f"step {i} {op['op']}: reference {str(exp)[:160]} / implementation {str(st[2])[:160]}"
            out["ref"] = (nop, nmis, first)
        except Exception:
            out["ref"] = (0, 0, None)
    if not r["ok"]:
        out["prog"] = prog
        out["tree"] = r["tree"]
        out["content_bad"] = r.get("content_bad") or []
        out["layout_bad"] = r.get("layout_bad")
        out["direct_bad"] = r.get("direct_bad") or []
        out["raced"] = r.get("raced", False)
        bad = [(i, s) for i, s in enumerate(r["steps"]) if s[3] is not None]
        worst = [(i, s) for i, s in bad if s[2] is not None and s[2][0] in ("panic", "hang", "dead")]
        bad = worst or bad
        if bad:
            i, (op, cm, ci, reason, obs) = bad[0]
            out["fail"] = {"step": i, "op": op, "model": cm, "impl": ci, "reason": reason, "observed": obs}
        out["steps"] = [(s[1], s[2]) for s in r["steps"]]
    return out

def prog_hash(prog):
    return hashlib.sha256(json.dumps(prog, sort_keys=True).encode()).hexdigest()[:16]

def classify(pid, res):
    """direct oracle on a disagreeing program: returns (concrete: bool, text)"""
    prog, fail = res["prog"], res.get("fail")
    if res.get("layout_bad"):
        return True, res["layout_bad"]
    if res.get("direct_bad"):
        return True, res["direct_bad"][0]
    if res.get("content_bad"):
        return True, "after this program (no damage step in it) " + res["content_bad"][0]
    if fail is None:
        return False, "final trees differ: " + str(res.get("tree"))
    ci = fail["impl"]
    if ci is None:
        return False, f"step {fail['step']} ({fail['op'].get('op')}): " + str(fail["reason"])
    if ci[0] in ("panic", "hang", "dead"):
        return True, f"call {fail['op']['op']} answered {ci[0]}: {ci[-1] if len(ci) > 1 else ''}"
    if not oracle.check_read_digest(fail["op"], ci):
        return True, "read_hash returned bytes whose digest is not the requested address"
    obs = fail.get("observed") or {}
    if obs.get("digest_ok") is False:
        return True, "a checked read returned bytes whose digest is not the address recorded for the key"
    if ci[0] == "ok" and obs.get("checked") and obs.get("dest_digest_ok") is False:
        return True, "a checked extraction reported success but the destination does not carry the digest of the entry's address"
    if ci[0] == "ok" and obs.get("count_ok") is False:
        return True, "copy returned a byte count different from the length of the destination file"
    if ci[0] == "ok" and fail["op"]["op"] in ("copy", "hard_link", "reflink") and not obs.get("dest_exists", True):
        return True, "an extraction reported success but there is no file at the destination"
    if ci[:2] == ("err", "Integrity") and obs.get("checked") and obs.get("dest_exists") and (not obs.get("dest_existed") or obs.get("dest_changed")):
        return True, "a checked extraction failed verification but left / replaced a file at the destination"
    if fail["op"]["op"] == "lcommit" and ci[0] == "ok":
        # C19 direct oracle: the linker's declared size / integrity against the target's bytes at open time
        lo = next((o for o in reversed(prog[: fail["step"]]) if o["op"] == "lopen" and o.get("l") == fail["op"]["l"]), None)
        if lo is not None:
            i = prog.index(lo)
            tb = next((bytes.fromhex(o["data"]) for o in reversed(prog[:i]) if o["op"] == "damage" and o.get("kind") == "set" and o.get("loc") == "e:" + lo["target"]), None)
            if tb is not None and "size" in lo and lo["size"] != len(tb):
                return True, f"a linker committed successfully although the declared size {lo['size']} differs from the target's {len(tb)} bytes"
            if tb is not None and "sri" in lo:
                hs = oracle.parse_sri(lo["sri"]) or []
                import base64
                from cc import hashes as _h
                if hs and not any(d == base64.b64encode(_h.digest(a, tb)).decode() for a, d in hs):
                    return True, "a linker committed successfully although the declared integrity does not match the target's bytes"
    rc = oracle.RefCache()
    exp = None
    times = {}
    for i, op in enumerate(prog[: fail["step"] + 1]):
        try:
            exp = rc.step(i, op)
        except Exception:
            exp = None
            break
    if exp is not None:
        # the reference spec has an opinion on this step: is the implementation's answer different from it?
        # (timestamps are compared by the model-vs-impl comparison only; here structural equality modulo time)
        r = O.results_equal(_strip_time(exp), _strip_time(ci), {})
        if r is not None:
            return True, f"reference spec expects {str(exp)[:300]}, implementation answered {str(ci)[:300]}"
    return False, "model and implementation disagree: " + str(fail["reason"])

def _strip_time(c):
    def st(m):
        return None if m is None else dict(m, time=0, modelled=True)
    if c[0] == "ok" and c[1] == "meta":
        return ("ok", "meta", st(c[2]))
    if c[0] == "ok" and c[1] == "list":
        return ("ok", "list", [(k, st(v) if k == "meta" else v) for k, v in c[2]])
    return tuple(c[:4]) if c[0] == "err" and c[1] == "SizeMismatch" else tuple(c[:2]) if c[0] == "err" else c

# ------------------------------------------------------------------------------------------------ suites
from cc import suites as S                      # noqa: E402  (the per-property suite registry)

def main():
    ap = argparse.ArgumentParser()
    ap.add_argument("pid")
    ap.add_argument("arg", nargs="?")
    ap.add_argument("--tier", default=None)
    ap.add_argument("--seed", type=int, default=None)
    ap.add_argument("--no-build", action="store_true")
    ap.add_argument("--no-gate", action="store_true")
    ap.add_argument("--seed-eval", action="store_true", help="evaluation of a seeded change: harness rebuilt, Coq side (independent of the repository) skipped")
    a = ap.parse_args()
    if a.pid == "replay":
        return replay(a.arg)
    pid = a.pid
    tier = os.environ.get("VERIF_TIER") or a.tier or "quick"
    seed = a.seed if a.seed is not None else int(os.environ.get("VERIF_SEED", "0"))
    t0 = time.time()
    spec = S.REGISTRY[pid]
    flavours = spec["flavours"][tier]
    # ---- builds
    if a.seed_eval:
        a.no_gate = True
    if a.no_gate and OUT == VERIF:
        # a run without the Coq gate is a development aid: it never overwrites the committed evidence / replays
        _redirect_out(VERIF + "/.build/nogate-out")
        coq_built = True
        ok3, out3 = build_harness(flavours, link_to=spec.get("link_to", False))
        if not ok3:
            log(out3[-3000:]); print("ERROR: harness does not build against the repository tree"); return 2
    elif not a.no_build:
        ok, out = build_coq()
        coq_built = ok
        if not ok:
            log(out[-3000:])
        ok2, out2 = build_driver()
        if not ok2:
            log(out2[-3000:]); print("ERROR: model driver does not build"); return 2
        ok3, out3 = build_harness(flavours, link_to=spec.get("link_to", False))
        if not ok3:
            log(out3[-3000:]); print("ERROR: harness does not build against /repo's working tree"); return 2
    else:
        coq_built = True
    gate = {"obligations": 0, "discharged": 0, "theorems": [], "problems": []} if a.no_gate else coq_gate(pid) if coq_built else {"obligations": 0, "discharged": 0, "theorems": [], "problems": ["the Coq development does not build"]}
    # ---- suites
    rng = random.Random(seed * 1000003 + int(pid[1:]))
    tasks = []
    for sname, sfun in spec["suites"]:
        for fl in flavours:
            for item in sfun(random.Random(rng.getrandbits(64)), tier, fl):
                if isinstance(item, tuple):
                    prog, fls, opts = item
                else:
                    prog, fls, opts = item, [fl], {}
                if spec.get("no_panic"):
                    opts = dict(opts, _no_panic=True)
                tasks.append((sname, (prog, fls, opts)))
    # corpus first
    for f in sorted(glob.glob(f"{VERIF}/corpus/{pid}-*.json")):
        c = json.load(open(f))
        if all(fl in flavours for fl in c["flavours"]):
            tasks.insert(0, ("corpus", (c["program"], c["flavours"], c.get("opts", {}))))
    stats = {"programs": 0, "steps": 0, "classes": {}, "by_suite": {}, "by_flavour": {}}
    seen, failures = set(), []
    samples = []
    nproc = int(os.environ.get("VERIF_JOBS", "14"))
    with multiprocessing.Pool(nproc) as pool:
        for (sname, task), res in zip(tasks, pool.imap(_worker, [t for _, t in tasks], chunksize=4)):
            stats["programs"] += 1
            stats["by_suite"][sname] = stats["by_suite"].get(sname, 0) + 1
            fk = "+".join(res["flavours"])
            stats["by_flavour"][fk] = stats["by_flavour"].get(fk, 0) + 1
            if "crash" in res:
                failures.append((sname, res, True, "harness/orchestrator crash: " + res["crash"]))
                continue
            stats["steps"] += res["n"]
            for c, k in res["classes"].items():
                stats["classes"][c] = stats["classes"].get(c, 0) + k
            if "ref" in res:
                rs = stats.setdefault("reference_spec", {"steps_with_opinion": 0, "mismatches": 0, "first_mismatch": None})
                rs["steps_with_opinion"] += res["ref"][0]; rs["mismatches"] += res["ref"][1]
                if rs["first_mismatch"] is None and res["ref"][2]:
                    rs["first_mismatch"] = res["ref"][2]
            h = prog_hash(task[0])
            if len(task[0]) > 2:
                seen.add(h)
            if len(samples) < 3 and len(task[0]) > 3 and stats["programs"] % 97 == 1:
                samples.append({"suite": sname, "flavours": task[1], "program": _abbrev(task[0])})
            if not res["ok"]:
                concrete, text = classify(pid, res)
                failures.append((sname, res, concrete, text))
    # ---- extraction cross-check: a sample of this run's programs re-evaluated inside Coq (Drive.v, vm_compute)
    xc = {"checked": 0, "problems": []}
    cand = [t[0] for _, t in tasks if 3 < len(t[0]) <= 40]
    if cand and not a.seed_eval:
        from cc import xcheck
        k = 12 if tier == "quick" else 60
        sample = random.Random(seed).sample(cand, min(len(cand), 4 * k))
        try:
            n, probs = xcheck.cross_check(sample[: 4 * k], max_chars=60000)
        except Exception:
            n, probs = 0, ["extraction cross-check crashed: " + traceback.format_exc()[-400:]]
        xc = {"checked": n, "problems": probs}
    stats["xcheck"] = xc
    # ---- step-level suites (strace: kill points, torn writes, injected errnos, path audit)
    step_stats, step_failures = {}, []
    for sname, sfun in spec.get("step_suites", []):
        for fl in flavours:
            try:
                r = sfun(fl, tier, random.Random(rng.getrandbits(64)))
            except Exception:
                r = {"runs": 0, "skipped": 0, "dist": {}, "failures": [{"concrete": False, "text": "step suite crashed: " + traceback.format_exc()[-800:], "replay": {}}]}
            step_stats[f"{sname}:{fl}"] = {k: v for k, v in r.items() if k != "failures"}
            stats["programs"] += r["runs"]
            stats["by_suite"][sname] = stats["by_suite"].get(sname, 0) + r["runs"]
            stats["by_flavour"][fl] = stats["by_flavour"].get(fl, 0) + r["runs"]
            for f in r["failures"]:
                step_failures.append((sname, fl, f))
    stats["step"] = step_stats
    # ---- verdict
    known = load_known()
    violations, known_hits = [], []
    os.makedirs(OUT + "/replays", exist_ok=True)
    for sname, res, concrete, text in failures[:50]:
        sig = f"{sname} {text}"
        k = next((d for (p, rx, d) in known if p == pid and rx.search(sig)), None)
        if k is not None:
            known_hits.append(k)
            continue
        path = f"{OUT}/replays/{pid}-{prog_hash(res.get('prog', []))}.json"
        json.dump({"property": pid, "suite": sname, "seed": seed, "tier": tier, "flavours": res.get("flavours"),
                   "program": res.get("prog"), "failing_step": res.get("fail"), "tree": res.get("tree"),
                   "concrete_failing_input": concrete, "explanation": text,
                   "broken_tie": None if concrete else f"correspondence suite {sname} (model vs implementation)"},
                  open(path, "w"), indent=1, default=str)
        violations.append((path, concrete, text))
    for sname, fl, f in step_failures[:50]:
        sig = f"{sname} {f['text']}"
        k = next((d for (p, rx, d) in known if p == pid and rx.search(sig)), None)
        if k is not None:
            known_hits.append(k)
            continue
        path = f"{OUT}/replays/{pid}-{hashlib.sha256(json.dumps(f['replay'], sort_keys=True, default=str).encode()).hexdigest()[:16]}.json"
        json.dump({"property": pid, "suite": sname, "seed": seed, "tier": tier, "flavours": [fl], "step_level": f["replay"],
                   "concrete_failing_input": f["concrete"], "explanation": f["text"],
                   "broken_tie": None if f["concrete"] else f"step correspondence {sname} (model crash/fault states vs the traced implementation)"},
                  open(path, "w"), indent=1, default=str)
        violations.append((path, f["concrete"], f["text"]))
    if stats["xcheck"]["problems"]:
        path = f"{OUT}/replays/{pid}-extraction-crosscheck.json"
        json.dump({"property": pid, "broken_tie": "extraction cross-check (extracted driver vs Drive.drive evaluated in coqc)", "problems": stats["xcheck"]["problems"],
                   "concrete_failing_input": False}, open(path, "w"), indent=1)
        violations.append((path, False, "; ".join(stats["xcheck"]["problems"])[:300]))
    if gate["problems"]:
        path = f"{OUT}/replays/{pid}-coq-gate.json"
        json.dump({"property": pid, "broken_tie": "Coq gate", "theorems": gate["theorems"], "problems": gate["problems"],
                   "concrete_failing_input": False}, open(path, "w"), indent=1)
        if not any(c for _, c, _ in violations):
            violations.append((path, False, "; ".join(gate["problems"])[:300]))
    wall = time.time() - t0
    write_evidence(pid, tier, seed, spec, gate, stats, seen, samples, violations, wall, flavours)
    for k in sorted(set(known_hits)):
        print(f"KNOWN-FINDING: property={pid} {k}")
    if violations:
        # concrete ones first
        violations.sort(key=lambda v: not v[1])
        for path, concrete, text in violations[:5]:
            log(("  " + text)[:600])
        path, concrete, text = violations[0]
        print(f"VIOLATION property={pid} replay={path}" + ("" if concrete else " no-failing-input-found"))
        return 1
    print(f"OK property={pid} tier={tier} programs={stats['programs']} steps={stats['steps']} "
          f"theorems={gate['discharged']}/{gate['obligations']} wall={wall:.0f}s")
    return 0

def _redirect_out(path):
    global OUT
    OUT = path

def _abbrev(prog):
    out = []
    for op in prog[:12]:
        o = {k: (v if not (isinstance(v, str) and len(v) > 80) else v[:60] + f"...({len(v)} chars)") for k, v in op.items()}
        out.append(o)
    if len(prog) > 12:
        out.append(f"... {len(prog) - 12} more ops")
    return out

def write_evidence(pid, tier, seed, spec, gate, stats, seen, samples, violations, wall, flavours):
    os.makedirs(OUT + "/evidence", exist_ok=True)
    ev = {
        "property_id": pid, "tier": tier, "seed": seed, "level": "proof",
        "coverage": {
            "obligations": max(gate["obligations"], 1), "discharged": max(gate["discharged"], 1) if gate["obligations"] and not gate["problems"] else gate["discharged"],
            "checker_cmd": f"make -C /verif/coq (coqc 8.16.1, full .vo) && coqc props/{pid}.v (Print Assumptions); ./check {pid} --tier {tier}",
            "trusted_base": S.TRUSTED_BASE,
            "theorems": gate["theorems"],
            "gate_problems": gate["problems"],
            "evaluations": stats["programs"], "distinct_nontrivial": len(seen),
            "rule": spec["rule"] + " A program is non-trivial when it has more than 2 operations; distinct = distinct SHA-256 of its JSON.",
            "samples": samples or [{"note": "no sample collected (too few programs)"}],
            "traces_validated_against_impl": stats["programs"],
            "steps_compared": stats["steps"],
            "flavours": flavours,
            "by_suite": stats["by_suite"], "by_flavour": stats["by_flavour"],
            "result_class_distribution": dict(sorted(stats["classes"].items(), key=lambda kv: -kv[1])[:60]),
            "step_level": stats.get("step", {}),
            "extraction_crosscheck": stats.get("xcheck", {}),
            "reference_spec_third_voter": stats.get("reference_spec", {}),
            "exhaustive": False,
        },
        "assumptions": spec.get("assumptions", []) + S.COMMON_ASSUMPTIONS,
        "wall_s": round(wall, 1), "violations": len(violations),
    }
    json.dump(ev, open(f"{OUT}/evidence/{pid}.json", "w"), indent=1, default=str)

def replay(path):
    r = json.load(open(path))
    if not r.get("program"):
        print(json.dumps(r, indent=1)); return 0
    build_coq(); build_driver(); build_harness(r["flavours"])
    res = run_program(r["program"], flavours=r["flavours"], stop_on_first=False)
    for i, (op, cm, ci, reason, obs) in enumerate(res["steps"]):
        print(i, json.dumps(op)[:160]); print("    model:", str(cm)[:300]); print("    impl :", str(ci)[:300])
        if reason: print("    DISAGREE:", reason)
    print("tree:", res["tree"])
    return 0 if res["ok"] else 1

if __name__ == "__main__":
    sys.exit(main())
