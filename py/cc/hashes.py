"""Independent digest implementations bound to the model's `hash` Section variable at run time:
hashlib for SHA-1/256/384/512, libxxhash (ctypes) for XXH3-128 (big-endian, as ssri stores it)."""
import ctypes, hashlib, base64

_lib = None
class _H(ctypes.Structure):
    _fields_ = [("low", ctypes.c_uint64), ("high", ctypes.c_uint64)]

def _xxh3(data: bytes) -> bytes:
    global _lib
    if _lib is None:
        _lib = ctypes.CDLL("libxxhash.so.0")
        _lib.XXH3_128bits.restype = _H
        _lib.XXH3_128bits.argtypes = [ctypes.c_char_p, ctypes.c_size_t]
    h = _lib.XXH3_128bits(data, len(data))
    return h.high.to_bytes(8, "big") + h.low.to_bytes(8, "big")

ALGOS = ["sha512", "sha384", "sha256", "sha1", "xxh3"]   # ssri rank order, strongest first

def digest(algo: str, data: bytes) -> bytes:
    if algo == "xxh3":
        return _xxh3(data)
    return hashlib.new(algo, data).digest()

def sri(algo: str, data: bytes) -> str:
    return algo + "-" + base64.b64encode(digest(algo, data)).decode()
