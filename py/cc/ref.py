"""Reference knowledge of the on-disk format, written from the text of property C17 only
(independent of /repo and of the Coq model): paths, record framing, a naive reader and writer."""
import hashlib, json, base64, os

def bucket_rel(key: bytes):
    h = hashlib.sha1(key).hexdigest()
    return ["index-v5", h[0:2], h[2:4], h[4:]]

def content_rel(sri_text: str):
    """path of the first hash of an integrity string (caller passes single-hash or sorted text)"""
    first = sri_text.split()[0]
    algo, b64 = first.split("-", 1)
    hx = base64.b64decode(b64).hex()
    return ["content-v2", algo, hx[0:2], hx[2:4], hx[4:]]

def loc_c(parts):
    return "c:" + "/".join(parts)

def record_bytes(obj_text: bytes) -> bytes:
    return b"\n" + hashlib.sha256(obj_text).hexdigest().encode() + b"\t" + obj_text

def make_record(key: str, integrity, time: int, size: int, metadata=None, raw=None) -> bytes:
    """naive writer: the six fields in order, compact JSON"""
    obj = {"key": key, "integrity": integrity, "time": time, "size": size,
           "metadata": metadata, "raw_metadata": raw}
    return record_bytes(json.dumps(obj, separators=(",", ":"), ensure_ascii=False).encode())

def naive_entries(data: bytes):
    """naive reader: newline-separated lines, each "<hex sha256 of json>\\t<json object>"; others ignored"""
    out = []
    segs = data.split(b"\n")
    for n, line in enumerate(segs):
        if line.endswith(b"\r") and n < len(segs) - 1:     # a CR is part of the line ending only before a LF
            line = line[:-1]
        parts = line.split(b"\t")
        if len(parts) != 2:
            continue
        h, j = parts
        if hashlib.sha256(j).hexdigest().encode() != h:
            continue
        try:
            obj = json.loads(j.decode("utf-8"))
        except Exception:
            continue
        if not isinstance(obj, dict) or "key" not in obj:
            continue
        out.append(obj)
    return out

def naive_find(data: bytes, key: str):
    cur = None
    for obj in naive_entries(data):
        if obj.get("key") == key:
            cur = obj if obj.get("integrity") is not None else None
    return cur
