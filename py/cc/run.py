"""Differential execution of one program: the same op list on the extracted model and on one or several
harness processes (flavour binaries sharing one cache directory), with per-step result comparison and
tree comparison at requested points."""
import os, shutil, tempfile, time, uuid
from . import ops as O
from .procs import ModelProc, ImplProc, BUILD, IMPL

SCRATCH = IMPL + "/scratch"

class Disagreement(Exception):
    pass

def new_dirs(tag=""):
    os.makedirs(SCRATCH, exist_ok=True)
    base = os.path.join(SCRATCH, f"{tag}{uuid.uuid4().hex[:10]}")
    cache, ext = os.path.join(base, "cache"), os.path.join(base, "ext")
    os.makedirs(cache); os.makedirs(ext)
    return base, cache, ext

def _layout(base, cache, layout):
    """the path the harness is given for the cache, and its working directory.
    "symlink": the path is a symbolic link to the real cache directory.
    "dotdot":  a relative path  link/../cache  where link -> ../elsewhere/deep, so that the path only means the real
               cache when `..` is resolved after following the link (as the OS does), not textually."""
    if layout == "symlink":
        lnk = os.path.join(base, "cache-link")
        os.symlink(cache, lnk)
        return lnk, None, [lnk]
    if layout == "dotdot":
        work = os.path.join(base, "work"); deep = os.path.join(base, "elsewhere", "deep")
        os.makedirs(work); os.makedirs(deep)
        # the real cache must be  <base>/elsewhere/cache : move it there
        real = os.path.join(base, "elsewhere", "cache")
        os.rename(cache, real); os.symlink(real, cache)           # keep the orchestrator's path valid
        os.symlink(os.path.join("..", "elsewhere", "deep"), os.path.join(work, "link"))
        return os.path.join("link", "..", "cache"), work, [work]
    return cache, None, []

def _layout_violation(layout, watch, cache):
    """direct oracle for the layouts: nothing but what we put there exists next to / instead of the real cache"""
    if layout == "symlink":
        lnk = watch[0]
        if not os.path.islink(lnk):
            return "the cache path was a symbolic link to the cache directory; after the program it no longer is one (the real cache was left behind)"
    if layout == "dotdot":
        extra = sorted(set(os.listdir(watch[0])) - {"link"})
        if extra:
            return f"files were created outside the cache directory the caller named (textual '..' resolution): {extra} next to the link"
    return None

def run_program(prog, flavours=("sync",), model=None, link_to=False, compare_tree="end", stop_on_first=True,
                env=None, timeout_ms=20000, layout=None):
    """prog: list of op dicts; an op may carry "bin": index into `flavours` (default 0) to choose which
    harness process executes it (mixed-flavour programs).  Returns a dict:
      steps: [(op, model_canon, impl_canon, reason|None)], tree: reason|None, ok: bool"""
    base, cache, ext = new_dirs()
    own_model = model is None
    m = model or ModelProc()
    m.reset()
    cache_arg, cwd, watch = _layout(base, cache, layout)
    impls = [ImplProc(f, cache_arg, ext, link_to=link_to, env=env, timeout_ms=timeout_ms, cwd=cwd) for f in flavours]
    times, steps, ok, tree_reason = {}, [], True, None
    raced = False
    content_bad = []
    direct_bad = []
    layout_bad = None
    try:
        for idx, op in enumerate(prog):
            if op["op"] == "damage":
                O.apply_damage(op, cache, ext)
                first, extra = m.cmd(O.model_line(op))
                steps.append((op, ("ok", "unit"), ("ok", "unit"), None, None))
                continue
            if op["op"] == "cmptree":
                r = compare_trees(m, cache, ext, times)
                m.cmd("list")          # keep the model's op counter (default timestamps) aligned with the program index
                steps.append((op, None, None, r, None))
                if r is not None:
                    ok = False; tree_reason = r
                    if stop_on_first: break
                continue
            if op["op"] == "chdir":
                # harness-only: the calling process changes its working directory; the cache API has no such call and the
                # model's state does not depend on it
                for ip in impls:
                    ip.op({"op": "chdir", "to": op["to"]})
                m.cmd("list")
                steps.append((op, None, None, None, None))
                continue
            if op["op"] == "refcheck":
                r = _refcheck(op, impls[0], cache, times)
                steps.append((op, None, None, r, None))
                m.cmd("list")          # keep the model's op counter aligned with the program index
                if r is not None:
                    ok = False
                    if stop_on_first: break
                continue
            ip = impls[op.get("bin", 0)]
            pre = _observe_pre(op, cache, ext)
            r = ip.op({k: v for k, v in op.items() if k != "bin"})
            obs = _observe_post(op, r, pre, cache, ext)
            if "t0" in r:
                times[idx] = (r["t0"], r["t1"])
            ci = O.canon_impl(op, r)
            line = O.model_line(op)
            first, extra = m.cmd(line)
            cm = O.canon_model(first, extra)
            if ci[0] == "unsupported":
                reason = None           # no such entry point: the model op was still executed; caller avoids these
                reason = "unsupported-op-in-program"
            elif op["op"] == "wabandon" and cm[0] == "ok" and ci[0] == "ok" and cm[1] != ci[1]:
                # the blocking task finished before the single poll (scheduling): the cancellation did not happen;
                # nothing to compare from here on — not a disagreement
                steps.append((op, cm, ci, None, obs))
                raced = True
                break
            else:
                reason = O.results_equal(cm, ci, times)
            dv = _direct(op, ci, obs)
            if dv is None and op["op"] == "list" and ci[:2] == ("ok", "list") and \
               not any(o["op"] == "damage" and o.get("loc", "").startswith("c:index-v5") for o in prog[:idx]):
                # (a cache whose index was edited by hand is outside C10: its domain is histories of writes and removals)
                dv = _direct_list(ip, ci)
            if dv is not None and reason is None:
                reason = "direct oracle: " + dv
                direct_bad.append(f"step {idx} ({op['op']}): {dv}")
            steps.append((op, cm, ci + ((r.get("msg"),) if ci[0] in ("panic", "err") else ()), reason, obs))
            if reason is not None:
                ok = False
                if stop_on_first: break
            if ci[0] in ("hang", "dead"):
                break
        if ok and compare_tree == "end" and not raced:
            tree_reason = compare_trees(m, cache, ext, times)
            if tree_reason is not None:
                ok = False
        lv = _layout_violation(layout, watch, cache) if layout else None
        if lv is not None:
            ok = False; layout_bad = lv
        if not ok and not any(op["op"] == "damage" for op in prog):
            # direct oracle for C03 on a disagreeing program: every file under content-v2 hashes to its path
            try:
                from .steps import content_oracle
                content_bad = content_oracle(cache)
            except Exception:
                content_bad = []
    finally:
        for ip in impls:
            ip.close()
        if own_model:
            m.close()
        shutil.rmtree(base, ignore_errors=True)
    return {"steps": steps, "tree": tree_reason, "ok": ok, "raced": raced, "content_bad": content_bad, "layout_bad": layout_bad, "direct_bad": direct_bad}

def compare_trees(m, cache, ext, times):
    first, extra = m.cmd("dump")
    return O.trees_equal(O.parse_model_dump(extra), O.dump_real(cache, ext), times)

# ---- observations for the direct oracles (C01 / C18): what the implementation left at an extraction destination, and
# whether delivered bytes carry the digest of the address the index / the caller names.  Independent of the Coq model.
def _addr_of(op, cache):
    import base64
    from . import ref, oracle
    try:
        if "sri" in op and op.get("by", "hash") == "hash" or op["op"] in ("read_hash", "ropen_hash"):
            hs = oracle.parse_sri(op["sri"])
        else:
            key = bytes.fromhex(op["key"])
            with open(os.path.join(cache, *ref.bucket_rel(key)), "rb") as f:
                obj = ref.naive_find(f.read(), key.decode())
            hs = oracle.parse_sri(obj["integrity"]) if obj else None
        return hs[0] if hs else None
    except Exception:
        return None

def _digest_matches(addr, data):
    import base64
    from . import hashes
    return addr is not None and addr[1] == base64.b64encode(hashes.digest(addr[0], data)).decode()

def _direct(op, ci, obs):
    """property-level oracles on one call that need no model (C01 / C18): what a checked retrieval handed out or left at
    the destination"""
    if not obs or ci is None or "observe_error" in obs:
        return None
    o = op["op"]
    if o in ("read", "read_hash"):
        return "a checked read returned bytes whose digest is not the address of the entry" if obs.get("digest_ok") is False else None
    if o in ("copy", "hard_link", "reflink") and obs.get("checked"):
        if ci[0] == "ok" and obs.get("dest_digest_ok") is False:
            return "a checked extraction reported success but the destination does not carry the digest of the entry's address"
        if ci[0] == "ok" and not obs.get("dest_exists", True):
            return "an extraction reported success but there is no file at the destination"
        if ci[0] == "ok" and obs.get("count_ok") is False:
            return "copy returned a byte count different from the length of the destination file"
        if ci[:2] == ("err", "Integrity") and obs.get("dest_exists") and (not obs.get("dest_existed") or obs.get("dest_changed")):
            return "a checked extraction failed verification but left / replaced a file at the destination"
    return None

def _direct_list(ip, ci):
    """C10 on one listing, without the model: every listed key is found by a lookup with the same address, size and time,
    and no key is listed twice (extra lookups on the implementation only; they change nothing)"""
    seen = set()
    for kind, item in ci[2]:
        if kind != "meta":
            continue
        k = item["key"]
        if k in seen:
            return f"the listing yields key {k} twice"
        seen.add(k)
        r = ip.op({"op": "metadata", "fl": "sync", "key": k})
        c = O.canon_impl({"op": "metadata"}, r)
        if c[:2] != ("ok", "meta"):
            continue
        if c[2] is None:
            return f"the listing yields key {k} but a lookup of it finds nothing"
        if any(c[2].get(f) != item.get(f) for f in ("sri", "size", "time")):
            return f"the listed entry of key {k} differs from what a lookup returns"
    return None

def _observe_pre(op, cache, ext):
    if op["op"] in ("copy", "hard_link", "reflink"):
        p = os.path.join(ext, op["to"])
        pre = {"dest_existed": os.path.lexists(p)}
        if pre["dest_existed"] and os.path.isfile(p):
            with open(p, "rb") as f: pre["dest_sha"] = __import__("hashlib").sha256(f.read()).hexdigest()
        return pre
    return None

def _observe_post(op, r, pre, cache, ext):
    o = op["op"]
    try:
        if o in ("copy", "hard_link", "reflink"):
            p = os.path.join(ext, op["to"])
            obs = dict(pre, dest_exists=os.path.lexists(p), checked=op.get("checked", True))
            if obs["dest_exists"] and os.path.isfile(p):
                with open(p, "rb") as f: data = f.read()
                obs["dest_sha"] = __import__("hashlib").sha256(data).hexdigest()
                obs["dest_changed"] = obs["dest_sha"] != pre.get("dest_sha")
                if r.get("r") == "ok":
                    obs["dest_digest_ok"] = _digest_matches(_addr_of(op, cache), data)
                    if o == "copy": obs["count_ok"] = (r.get("v") == len(data))
            return obs
        if o in ("read", "read_hash") and r.get("r") == "ok":
            return {"digest_ok": _digest_matches(_addr_of(op, cache), bytes.fromhex(r["v"]))}
    except Exception as e:
        return {"observe_error": repr(e)}
    return None

def _refcheck(op, ip, cache, times):
    """C17 direct oracle: the naive reference reader over the bucket bytes on disk must agree with the library's lookup"""
    import json
    from . import ref, oracle
    key = bytes.fromhex(op["key"])
    try:
        with open(os.path.join(cache, *ref.bucket_rel(key)), "rb") as f:
            data = f.read()
    except FileNotFoundError:
        data = b""
    r = ip.op({"op": "metadata", "fl": "sync", "key": op["key"]})
    ci = O.canon_impl({"op": "metadata"}, r)
    try:
        obj = ref.naive_find(data, key.decode())
        if obj is None:
            exp = ("ok", "meta", None)
        else:
            hs = oracle.parse_sri(obj["integrity"])
            if hs is None:
                return None
            raw = obj.get("raw_metadata")
            exp = ("ok", "meta", {"key": op["key"], "sri": oracle.sri_text(hs), "time": obj["time"], "size": obj["size"],
                   "meta": json.dumps(obj["metadata"], separators=(",", ":"), ensure_ascii=False, sort_keys=True).encode().hex(),
                   "raw": None if raw is None else bytes(raw).hex(), "modelled": True})
    except Exception:
        return None
    d = O.results_equal(exp, ci, {})
    return None if d is None else f"reference reader disagrees with the library's lookup: {d}; reference {str(exp)[:200]} library {str(ci)[:200]}"
