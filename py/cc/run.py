"""Differential execution of one program: the same op list on the extracted model and on one or several
harness processes (flavour binaries sharing one cache directory), with per-step result comparison and
tree comparison at requested points."""
import os, shutil, tempfile, time, uuid
from . import ops as O
from .procs import ModelProc, ImplProc, BUILD

SCRATCH = BUILD + "/scratch"

class Disagreement(Exception):
    pass

def new_dirs(tag=""):
    os.makedirs(SCRATCH, exist_ok=True)
    base = os.path.join(SCRATCH, f"{tag}{uuid.uuid4().hex[:10]}")
    cache, ext = os.path.join(base, "cache"), os.path.join(base, "ext")
    os.makedirs(cache); os.makedirs(ext)
    return base, cache, ext

def run_program(prog, flavours=("sync",), model=None, link_to=False, compare_tree="end", stop_on_first=True,
                env=None, timeout_ms=20000):
    """prog: list of op dicts; an op may carry "bin": index into `flavours` (default 0) to choose which
    harness process executes it (mixed-flavour programs).  Returns a dict:
      steps: [(op, model_canon, impl_canon, reason|None)], tree: reason|None, ok: bool"""
    base, cache, ext = new_dirs()
    own_model = model is None
    m = model or ModelProc()
    m.reset()
    impls = [ImplProc(f, cache, ext, link_to=link_to, env=env, timeout_ms=timeout_ms) for f in flavours]
    times, steps, ok, tree_reason = {}, [], True, None
    try:
        for idx, op in enumerate(prog):
            if op["op"] == "damage":
                O.apply_damage(op, cache, ext)
                first, extra = m.cmd(O.model_line(op))
                steps.append((op, ("ok", "unit"), ("ok", "unit"), None))
                continue
            if op["op"] == "cmptree":
                r = compare_trees(m, cache, ext, times)
                steps.append((op, None, None, r))
                if r is not None:
                    ok = False; tree_reason = r
                    if stop_on_first: break
                continue
            ip = impls[op.get("bin", 0)]
            r = ip.op({k: v for k, v in op.items() if k != "bin"})
            if "t0" in r:
                times[idx] = (r["t0"], r["t1"])
            ci = O.canon_impl(op, r)
            line = O.model_line(op)
            first, extra = m.cmd(line)
            cm = O.canon_model(first, extra)
            if ci[0] == "unsupported":
                reason = None           # no such entry point: the model op was still executed; caller avoids these
                reason = "unsupported-op-in-program"
            else:
                reason = O.results_equal(cm, ci, times)
            steps.append((op, cm, ci + ((r.get("msg"),) if ci[0] in ("panic", "err") else ()), reason))
            if reason is not None:
                ok = False
                if stop_on_first: break
            if ci[0] in ("hang", "dead"):
                break
        if ok and compare_tree == "end":
            tree_reason = compare_trees(m, cache, ext, times)
            if tree_reason is not None:
                ok = False
    finally:
        for ip in impls:
            ip.close()
        if own_model:
            m.close()
        shutil.rmtree(base, ignore_errors=True)
    return {"steps": steps, "tree": tree_reason, "ok": ok}

def compare_trees(m, cache, ext, times):
    first, extra = m.cmd("dump")
    return O.trees_equal(O.parse_model_dump(extra), O.dump_real(cache, ext), times)
