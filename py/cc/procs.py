"""Process wrappers: the extracted model driver (with the hash oracle served in-line) and the Rust
harness binaries."""
import json, os, subprocess, sys
from . import hashes

BUILD = "/verif/.build"
MODEL_BIN = BUILD + "/ocaml/model_driver"
IMPL = os.environ.get("VERIF_IMPL_DIR", BUILD)      # where the harness binaries and scratch caches live

class ModelProc:
    def __init__(self):
        env = dict(os.environ, OCAMLRUNPARAM="s=32M")       # big minor heap: deep non-tail recursions are scanned at every minor GC
        self.p = subprocess.Popen(["/bin/sh", "-c", "ulimit -s unlimited 2>/dev/null || ulimit -s 4000000; exec " + MODEL_BIN],
                                  stdin=subprocess.PIPE, stdout=subprocess.PIPE, bufsize=0, env=env)
        self.rf = os.fdopen(self.p.stdout.fileno(), "rb", buffering=1 << 16, closefd=False)
        self.hash_queries = 0
        self.transcript = None          # when a list: (line sent, first answer line, extra lines); and .queries: (algo, hex in, hex out)
        self.queries = []

    def _send(self, line: str):
        self.p.stdin.write(line.encode() + b"\n")

    def cmd(self, line: str):
        """returns (first_line, [extra lines])"""
        self._send(line)
        while True:
            l = self.rf.readline()
            if not l:
                raise RuntimeError("model driver died")
            l = l.rstrip(b"\n").decode()
            if l.startswith("?"):
                algo, hx = l[1:].split(" ") if " " in l else (l[1:], "")
                self.hash_queries += 1
                dg = hashes.digest(algo, bytes.fromhex(hx)).hex()
                if self.transcript is not None:
                    self.queries.append((algo, hx, dg))
                self._send(dg)
                continue
            assert l.startswith("= "), l
            k = int(l[2:])
            first = self.rf.readline().rstrip(b"\n").decode()
            extra = [self.rf.readline().rstrip(b"\n").decode() for _ in range(k)]
            if self.transcript is not None:
                self.transcript.append((line, first, extra))
            return first, extra

    def reset(self):
        self.cmd("reset")

    def close(self):
        try:
            self.p.stdin.close()
            self.p.wait(timeout=5)
        except Exception:
            self.p.kill()

class ImplProc:
    def __init__(self, flavour: str, cache: str, ext: str, link_to=False, env=None, timeout_ms=20000, wrapper=None, cwd=None):
        exe = f"{IMPL}/bin/cch-{flavour}" + ("-link_to" if link_to else "")
        e = dict(os.environ)
        e["CCH_TIMEOUT_MS"] = str(timeout_ms)
        if env:
            e.update(env)
        argv = (wrapper or []) + [exe, cache, ext]
        self.flavour = flavour
        self.p = subprocess.Popen(argv, stdin=subprocess.PIPE, stdout=subprocess.PIPE,
                                  stderr=subprocess.DEVNULL, env=e, bufsize=0, cwd=cwd)
        self.rf = os.fdopen(self.p.stdout.fileno(), "rb", buffering=1 << 16, closefd=False)
        self.dead = False

    def op(self, d: dict):
        if self.dead:
            return {"r": "dead"}
        try:
            self.p.stdin.write(json.dumps(d).encode() + b"\n")
            l = self.rf.readline()
        except BrokenPipeError:
            l = b""
        if not l:
            self.dead = True
            return {"r": "dead"}
        r = json.loads(l)
        if r.get("r") == "hang":
            self.dead = True
        return r

    def close(self):
        try:
            self.p.stdin.close()
        except Exception:
            pass
        try:
            self.p.wait(timeout=5)
        except Exception:
            self.p.kill()
            self.p.wait()
