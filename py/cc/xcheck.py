"""Extraction cross-check: sampled programs are replayed through the extracted OCaml driver with a transcript (lines sent,
answers, hash queries); the same lines are then evaluated INSIDE Coq (theories/Drive.v, vm_compute) with the hash oracle
bound to the finite table of logged queries, and Coq itself compares the answers.  A `false` (or a coqc failure) means the
extracted binary + driver.ml do not compute what the Gallina model computes on that program."""
import os, subprocess, tempfile
from . import ops as O
from .procs import ModelProc

COQ = "/verif/coq"
ALGO = {"sha1": "Sha1", "sha256": "Sha256", "sha384": "Sha384", "sha512": "Sha512", "xxh3": "Xxh3"}

def transcript_of(prog):
    m = ModelProc()
    m.transcript = []
    try:
        m.reset()
        m.transcript.clear(); m.queries.clear()
        for op in prog:
            if op["op"] in ("cmptree", "refcheck", "chdir"):
                m.cmd("dump" if op["op"] == "cmptree" else "list")
                if op["op"] == "cmptree":
                    m.cmd("list")
                continue
            line = O.model_line(op)
            if line is None:
                continue
            m.cmd(line)
        m.cmd("dump")
        return list(m.transcript), list(m.queries)
    finally:
        m.close()

def coq_str(s):
    assert '"' not in s and all(32 <= ord(c) < 127 for c in s), s[:80]
    return '"' + s + '"'

def cross_check(programs, max_chars=60000, timeout=600, transcripts=None):
    """returns (n_checked, problems); `transcripts`: ready-made (transcript, queries) pairs instead of programs"""
    cases = []
    for prog in programs:
        try:
            tr, qs = transcript_of(prog)
        except Exception as e:
            return 0, [f"transcript failed: {e!r}"]
        size = sum(len(l) + len(f) + sum(len(x) for x in ex) for l, f, ex in tr) + sum(len(a) + len(b) for _, a, b in qs)
        if size > max_chars:
            continue
        cases.append((tr, qs))
    for tr, qs in transcripts or []:
        size = sum(len(l) + len(f) + sum(len(x) for x in ex) for l, f, ex in tr) + sum(len(a) + len(b) for _, a, b in qs)
        if size <= max_chars:
            cases.append((tr, qs))
    if not cases:
        return 0, []
    out = ["From CC Require Import Bytes Codec Sri Sess Drive.", "Definition H (s : string) : bytes := unhex_or_empty (bs s).", "Local Open Scope N_scope."]
    for i, (tr, qs) in enumerate(cases):
        seen, tbl = set(), []
        for a, hin, hout in qs:
            if (a, hin) in seen: continue
            seen.add((a, hin)); tbl.append(f"({ALGO[a]}, H {coq_str(hin)}, H {coq_str(hout)})")
        out.append(f"Definition t{i} : hash_table := [{'; '.join(tbl)}].")
        out.append(f"Definition l{i} : list bytes := [{'; '.join('bs ' + coq_str(l) for l, _, _ in tr)}].")
        ans = "; ".join(f"(bs {coq_str(f)}, [{'; '.join('bs ' + coq_str(x) for x in ex)}])" for _, f, ex in tr)
        out.append(f"Definition e{i} : list (bytes * list bytes) := [{ans}].")
        out.append(f"Eval vm_compute in answers_eqb (drive t{i} l{i} sstate0 0) e{i}.")
    d = tempfile.mkdtemp(prefix="xc", dir="/verif/.build")
    try:
        path = os.path.join(d, "cases.v")
        open(path, "w").write("\n".join(out) + "\n")
        p = subprocess.run(["/bin/sh", "-c", f"ulimit -s unlimited 2>/dev/null || ulimit -s 4000000; exec timeout {timeout} coqc -noglob -Q {COQ}/theories CC -o {d}/cases.vo {path}"],
                           stdout=subprocess.PIPE, stderr=subprocess.STDOUT, cwd=d)
        text = p.stdout.decode("utf-8", "replace")
        trues = text.count("= true")
        problems = []
        if p.returncode != 0:
            problems.append("coqc failed on the cross-check cases: " + text[-400:])
        elif trues != len(cases):
            problems.append(f"{len(cases) - trues} of {len(cases)} sampled programs evaluate differently inside Coq (Drive.drive under vm_compute) and in the extracted driver")
        return len(cases), problems
    finally:
        import shutil
        shutil.rmtree(d, ignore_errors=True)
