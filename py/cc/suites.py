"""The per-property registry: which correspondence suites (generators) and which flavours serve a property."""
from . import gen, steps

TRUSTED_BASE = [
    "coqc 8.16.1 kernel (vm_compute used in Examples only; no native_compute)",
    "no axioms: every property theorem prints 'Closed under the global context'",
    "extraction to OCaml with ExtrOcamlBasic only (Extract Inductive bool, option, unit, list, prod, sumbool, sumor; Extract Inlined Constant andb, orb)",
    "ocaml/driver.ml (I/O glue, Obj.magic char<->Byte.byte with start-up self-check, hash pipe)",
    "python orchestrator py/cc (generators, canonicalisation, diff), hashlib + libxxhash as the hash oracle",
    "Rust harness harness/src/main.rs (catch_unwind, watchdog, result printing)",
    "modelled, not verified: filesystem semantics (Fs.v exec), serde_json / ssri / base64 / hex / lines() re-implemented in Gallina from their sources, async runtimes not modelled",
]
COMMON_ASSUMPTIONS = [
    "the correspondence is sampling: model and implementation are shown to agree on the generated programs only",
    "keys are valid UTF-8 (Rust &str); integrity arguments well-formed",
    "non-integer JSON numbers and integers outside [-2^63, 2^64) in metadata are outside the modelled domain",
]

def suite_hist(rng, tier, flavour):
    L = 2 if tier == "quick" else 3
    if not (flavour == "tok" and tier == "quick"):
        for p in gen.exhaustive_histories(flavour, L):
            yield p
    n = 80 if tier == "quick" else 600
    for _ in range(n):
        yield gen.random_history(rng, flavour, rng.randrange(3, 40))

def suite_damage(rng, tier, flavour):
    n = 6 if tier == "quick" else 100
    yield from gen.damage_programs(rng, flavour, n, exhaustive_cuts=True)

def suite_bitflips(rng, tier, flavour):
    if tier == "quick":
        yield from gen.bitflip_programs(rng, flavour, 1, region="head")
    else:
        yield from gen.bitflip_programs(rng, flavour, 4, region="all")

def suite_foreign(rng, tier, flavour):
    yield from gen.foreign_bucket_programs(rng, flavour, 60 if tier == "quick" else 600)

def suite_ls(rng, tier, flavour):
    n = 80 if tier == "quick" else 600
    for _ in range(n):
        p = gen.random_history(rng, flavour, rng.randrange(5, 60), hostile=0.3, real_writes=0.1)
        yield p

def suite_relist(rng, tier, flavour):         # C10
    yield from gen.relist_programs(rng, flavour, 40 if tier == "quick" else 400)

W_HEALTHY = {"write": 3, "write_hash": 1, "stream": 3, "lookup": 4, "reader": 2}
W_ALL = {"write": 3, "write_hash": 1, "stream": 3, "stream_drop": 1, "lookup": 4, "reader": 2, "extract": 2, "remove": 2, "insert": 1}

def _api(rng, tier, flavour, weights, nq, nt, length=(6, 18), big_every=0, hostile=0.15, stream_kw=None):
    n = nq if tier == "quick" else nt
    for i in range(n):
        big = 0.15 if (big_every and i % big_every == 0) else 0.0
        yield gen.api_program(rng, flavour, rng.randrange(*length), weights, big=big, hostile=hostile, stream_kw=stream_kw)

def suite_roundtrip(rng, tier, flavour):      # C02
    yield from _api(rng, tier, flavour, W_HEALTHY, 150, 1500, big_every=50, hostile=0.35,
                    stream_kw={"size_mode": None, "sri_mode": "none"})

def suite_roundtrip_ok(rng, tier, flavour):   # C02: only correct declarations, every chunking
    n = 100 if tier == "quick" else 1000
    for i in range(n):
        b = gen.ProgBuilder(rng, flavour, hostile=0.4)
        for _ in range(rng.randrange(1, 5)):
            r = rng.random()
            big = 0.1 if i % 40 == 0 else 0.0
            if r < 0.3: b.op_write(big)
            elif r < 0.45: b.op_write_hash(big)
            else: b.op_stream(big, size_mode=rng.choice(["none", "ok"]), sri_mode=rng.choice(["none", "none", "ok"]))
            b.op_lookup()
            if rng.random() < 0.25:
                b.op_restore()
            if rng.random() < 0.15:
                # the whole cache is cleared (tmp/ goes too) and the same process writes on
                b.op_remove(allow_clear=1.0)
        b.final_lookups()
        yield b.prog

def suite_commit(rng, tier, flavour):         # C08
    yield from _api(rng, tier, flavour, {"stream": 6, "write": 1, "lookup": 3, "remove": 1}, 200, 2000, big_every=60)

def suite_removals(rng, tier, flavour):       # C09
    yield from _api(rng, tier, flavour, {"write": 4, "write_hash": 1, "stream": 1, "lookup": 4, "remove": 5, "insert": 1},
                    200, 2000, length=(8, 30))

def suite_layouts(rng, tier, flavour):        # C15 / C09: the cache path is a symlink, or a relative path with ".." after a symlink
    n = 60 if tier == "quick" else 600
    for i in range(n):
        p = gen.api_program(rng, flavour, rng.randrange(6, 16), {"write": 4, "write_hash": 1, "stream": 2, "stream_drop": 1, "lookup": 4, "remove": 3, "extract": 1}, hostile=0.2)
        if rng.random() < 0.5:
            p.insert(rng.randrange(len(p) // 2, len(p)), {"op": "clear", "fl": gen.pick_fl(rng, flavour)})
            p.append({"op": "list"})
        yield (p, [flavour], {"layout": "symlink" if i % 2 else "dotdot"})

def suite_abandon(rng, tier, flavour):        # C14
    yield from _api(rng, tier, flavour, {"write": 2, "stream": 3, "stream_drop": 4, "stream_leave": 1, "lookup": 4, "remove": 1},
                    200, 2000, big_every=70)

def suite_dedup(rng, tier, flavour):          # C16
    yield from _api(rng, tier, flavour, {"write": 5, "write_hash": 3, "stream": 3, "lookup": 3, "remove": 1}, 200, 2000,
                    big_every=70, stream_kw={"size_mode": None, "sri_mode": None})

def suite_damage_content(rng, tier, flavour):  # C01 / C18
    yield from _api(rng, tier, flavour, {"write": 3, "write_hash": 1, "stream": 1, "lookup": 4, "reader": 3, "extract": 4, "damage_content": 4},
                    250, 2500, length=(8, 24), big_every=80)

def suite_extract(rng, tier, flavour):        # C18
    yield from _api(rng, tier, flavour, {"write": 3, "write_hash": 1, "lookup": 1, "extract": 6, "damage_content": 2, "remove": 1},
                    200, 2000, length=(8, 24), big_every=80)

def suite_all(rng, tier, flavour):
    yield from _api(rng, tier, flavour, dict(W_ALL, damage_content=1), 200, 2000, length=(8, 30), big_every=100, hostile=0.3)

def suite_meta(rng, tier, flavour):
    yield from gen.meta_programs(rng, flavour, 150 if tier == "quick" else 1500)

def suite_refwrites(rng, tier, flavour):
    yield from gen.ref_written_programs(rng, flavour, 150 if tier == "quick" else 1500)

def suite_crafted(rng, tier, flavour):
    yield from gen.crafted_programs(rng, flavour, 150 if tier == "quick" else 1500)

def suite_mixed(rng, tier, flavour):          # C12: one directory handed between the three binaries
    if flavour != "sync":
        return
    n = 150 if tier == "quick" else 1500
    for i in range(n):
        big = 0.1 if i % 60 == 0 else 0.0
        w = dict(W_ALL, damage_content=1) if i % 3 else {"write": 2, "stream": 2, "insert": 3, "remove": 2, "lookup": 5}
        p = gen.api_program(rng, "astd", rng.randrange(8, 30), w, big=big, hostile=0.3)
        yield (gen.mix_flavours(rng, p), ["sync", "astd", "tok"], {})
    for p in gen.damage_programs(rng, "astd", 2 if tier == "quick" else 30, exhaustive_cuts=False):
        yield (gen.mix_flavours(rng, p), ["sync", "astd", "tok"], {})

def suite_late_commit(rng, tier, flavour):    # C20 / C14: commit or drop after the cache was cleared under the writer
    yield from gen.late_commit_programs(rng, flavour, 100 if tier == "quick" else 1000)

def suite_rot(rng, tier, flavour):            # C01 / C18: in-place rot between two retrievals in one process
    yield from gen.rot_programs(rng, flavour, 80 if tier == "quick" else 800)

def suite_refcache(rng, tier, flavour):       # C17: complete reference-written caches (multi-hash integrity included)
    yield from gen.ref_cache_programs(rng, flavour, 120 if tier == "quick" else 1200)

def suite_cancel(rng, tier, flavour):         # C03 / C20: cancelled async writes
    # one blocking thread: the harness can then wait for the abandoned task (FIFO queue) before the next call
    for p in gen.abandon_programs(rng, flavour, 150 if tier == "quick" else 1500):
        yield (p, [flavour], {"env": {"CCH_SINGLE": "1"}})

def suite_link(rng, tier, flavour):           # C19 (harness built with the link_to feature)
    for p in gen.link_programs(rng, flavour, 120 if tier == "quick" else 1200):
        yield (p, [flavour], {"link_to": True})

Q2 = {"quick": ["sync", "astd"], "thorough": ["sync", "astd", "tok"]}
Q3 = {"quick": ["sync", "astd", "tok"], "thorough": ["sync", "astd", "tok"]}

def step_c03(fl, tier, rng): return steps.suite_kill(fl, tier, rng, "C03")
def step_c04(fl, tier, rng): return steps.suite_kill(fl, tier, rng, "C04")

REGISTRY = {
    "C07": {"flavours": Q3, "suites": [], "step_suites": [("schedules", steps.suite_conc), ("schedules3", steps.suite_conc3)],
            "rule": "forced schedules on the real binaries (two processes, one directory): operation A is parked by strace (delay on entry) before its i-th system call that names a cache path — every such call in the thorough tier, a spread of them in the quick tier — while operation B runs to completion in a second process, then A resumes; pairs drawn from {write (same key / other key, same or other content), write_hash, a streamed writer whose commit is rejected (wrong declared size) with the same content, read, read_hash, metadata, remove, remove_hash, exists, list} on cold and warm caches; both results and the final tree (timestamps masked) must equal those of A;B or of B;A run serially on the same binaries; plus three-operation schedules (three processes: A parked at its i-th call, B parked at its j-th, C runs, then B, then A) against the six serial orders."},
    "C19": {"flavours": Q3, "suites": [("link", suite_link)], "link_to": True,
            "rule": "targets of 0 / 1 / small / > 16 KiB and > 32 KiB bytes in the caller's directory; link_to / link_to_hash and linkers opened with options (declared size equal / wrong, integrity correct / wrong / other algorithm, algorithm, time, metadata) or plain, absolute and relative target paths, 0..3 partial reads (0, 1, 8, 100, 16384, 40000 byte buffers) before commit or drop, addresses that already exist as regular content; read / metadata / read_hash / exists / copy / list afterwards; whole tree compared (symlink, not a copy; target untouched); then targets are modified / grown / emptied / removed and everything is read again (errors, never other bytes); three flavours built with the link_to feature."},
    "C03": {"flavours": Q3, "suites": [("cancel", suite_cancel)], "step_suites": [("kill", step_c03), ("kill_renames_fail", steps.suite_kill_under_fault)],
            "rule": "strace kill sweep: for every write variant (one-shot keyed / by address, streamed with declared size (mapped) and plain, more data than declared, fewer bytes than declared (trimmed temp file; rejected commit), overwrite, address already present, tombstone; thorough: sizes 1 MiB-1/0/+1) the process is SIGKILLed on entry to every mutating system call of every operation, and every data write into the cache is additionally torn at every byte length; on each surviving directory: every regular file under content-v2 hashes (hashlib/libxxhash) to its path, and the normalised tree is one of the model's crash states (Crash.v) for that operation; plus a differential suite of cancelled async writes (a write started, polled once and dropped, then further writes of shorter / equal / longer chunks, commit; Sess.v OAbandon): results, the final tree and the content oracle."},
    "C04": {"flavours": Q3, "suites": [], "step_suites": [("kill", step_c04)],
            "rule": "strace kill sweep over keyed writes, overwrites (multi-byte UTF-8 metadata; after a long history: bucket > 64 KiB), rejected commits and tombstone removals: SIGKILL on entry to every mutating system call, the index append torn at EVERY byte length; on each surviving directory a fresh process looks the key up (previous or new entry, never a mixture; new entry => its data reads back), every other key unchanged, then writes the key again and reads it back; the tree is one of the model's crash states."},
    "C13": {"flavours": Q3, "suites": [], "step_suites": [("fault", steps.suite_fault), ("retry", steps.suite_fault_retry), ("fsize", steps.suite_fsize), ("eintr", steps.suite_eintr)],
            "rule": "strace fault sweep: every system call (open/read/write/mkdir/rename/unlink/link/stat/getdents/...) that names a path inside the cache during write, write_hash, streamed open/chunk/commit, read, read_hash, metadata, copy, remove, remove_hash, list is made to fail once with EIO / ENOSPC / EACCES (thorough: + EMFILE); the call must answer an error or a truthful success (written data reads back, reads return the stored bytes, metadata/list do not silently lose entries), never panic/hang/die; afterwards content files hash to their paths, unnamed entries are unchanged (a temp file left by a failed call is counted, not alarmed on: the property names the content and index areas only); and the same call issued again without the fault succeeds; plus genuine short writes: the process's file-size limit is lowered during a streamed write (one write(2) short, the next EFBIG), the failed write() call is retried after the limit is lifted, and a commit that reports success must read back exactly the acknowledged bytes."},
    "C15": {"flavours": Q3, "suites": [("layouts", suite_layouts), ("damage_content", suite_damage_content)], "step_suites": [("confine", steps.suite_confine), ("chdir", steps.suite_chdir)],
            "rule": "strace path audit: for hostile / confusable / random Unicode keys a 25-call program covering every kind of operation is traced; every mutating system call must name paths inside the cache root (extractions: or their destination), read-only calls must issue no mutating system call, path components under the cache are never empty, '.', '..' or contain NUL, components under index-v5 are hex, content files are never opened for writing in place, the working directory is untouched; plus differential programs on damaged content (every read-only entry point on entries whose content was flipped / truncated / replaced / removed: the tree afterwards is the model's, i.e. unchanged) and two cache-path layouts; a cache whose temp area is unusable (a regular file named tmp: writers fail and create nothing anywhere else), extraction whose destination is an existing directory (an error: nothing below it is written), a key that is an absolute path into an existing directory elsewhere, extraction touching exactly its destination; and a relative cache path across a change of working directory (two caches named ./c: the calls on the second leave the first byte-for-byte unchanged)."},
    "C11": {"flavours": Q3, "suites": [("meta", suite_meta), ("commit", suite_commit)],
            "rule": "several writes to one key with fields (data, time incl. 2^128-1, JSON metadata trees, raw bytes, declared size, single/multi-hash integrity) drawn from small pools so that successive records differ in one field or repeat earlier values, via streamed writers and index::insert, read back by metadata/find/list after each; bucket bytes compared byte for byte (explicit times); default time checked against the call's wall-clock window."},
    "C17": {"flavours": Q3, "suites": [("refwrites", suite_refwrites), ("refcache", suite_refcache), ("meta", suite_meta), ("hist", suite_hist)],
            "rule": "both directions: buckets written by the python reference writer in several valid JSON spellings (spaces, \\uXXXX escapes, shuffled / extra / omitted optional fields) read by the library; complete reference-written caches (record + content file; integrity listing one to three hashes in any order, content under the strongest algorithm) read by key, by address, streamed and copied; library-written caches read by the naive reference reader (refcheck after every index write); bucket bytes and paths compared with the model byte for byte."},
    "C20": {"flavours": Q3, "suites": [("crafted", suite_crafted), ("all", suite_all), ("abandon", suite_abandon), ("damage", suite_damage), ("cancel", suite_cancel), ("late_commit", suite_late_commit)], "no_panic": True,
            "rule": "crafted checksum-valid records (odd integrity strings, non-object JSON, missing fields, 200-deep nesting), directories and dangling symlinks at bucket and content paths, declared-size chunkings, buckets with records cut at every byte length / garbage / invalid UTF-8 lines, plus the general and abandonment programs; every call under catch_unwind and a watchdog: any panic or hang of the implementation is a violation whatever the model says."},
    "C02": {"flavours": Q3, "suites": [("roundtrip", suite_roundtrip), ("roundtrip_ok", suite_roundtrip_ok)],
            "rule": "random programs of writes through every entry point (one-shot, streamed with random chunkings incl. empty/single-byte/decreasing, keyed and by address, with/without declared size, five algorithms, small/hostile keys, sizes 0..16 KiB+1 and occasionally 1 MiB-1/0/+1 and 3 MiB) each followed by reads by key, by address, streamed reads and metadata."},
    "C08": {"flavours": Q3, "suites": [("commit", suite_commit)], "step_suites": [("eintr", steps.suite_eintr)],
            "rule": "streamed writers with declared size smaller/equal/larger and declared integrity correct/wrong/other-algorithm/multi-hash, keyed and by address, prior key states absent/present/removed, followed by lookups; plus, with strace, streamed writes with CORRECT declarations in which one write(2) of the data is interrupted (EINTR, re-issued by the standard library): if every writer call answered ok the commit must succeed and the data read back."},
    "C09": {"flavours": Q3, "suites": [("removals", suite_removals), ("layouts", suite_layouts)],
            "rule": "histories mixing writes with remove, remove_hash, remove_fully, clear over small and hostile keys (keys sharing content included), lookups of every known key/address and the listing afterwards."},
    "C14": {"flavours": Q3, "suites": [("abandon", suite_abandon), ("cancel", suite_cancel), ("late_commit", suite_late_commit)],
            "rule": "writers dropped after creation / after some chunks / after a rejected commit, or left open, interleaved with successful operations; plus async writers whose writes are cancelled while the background task is in flight (started, polled once, dropped) before further chunks and commit; lookups, listing, and the final tree (including tmp/) compared."},
    "C16": {"flavours": Q3, "suites": [("dedup", suite_dedup)], "step_suites": [("rewrite_kill", steps.suite_rewrite_kill)],
            "rule": "programs re-writing equal data under the same and different keys through different entry points, flavours and all five algorithms; returned addresses (hashlib/libxxhash), lookups and the final tree (one file per address) compared; plus a strace kill sweep over re-writes of stored bytes (one-shot same / other key, by address, streamed with and without declared size): at every kill point the stored copy is present, byte-identical, and its key still reads it."},
    "C01": {"flavours": Q3, "suites": [("damage_content", suite_damage_content), ("rot", suite_rot)], "step_suites": [("fault_damaged", steps.suite_fault_damaged)],
            "rule": "with strace: checked copy / read of an entry whose content is damaged (same length) while one system call of the retrieval fails (EIO, or EINTR which is re-issued) - the answer is an error, never success with other bytes; programs that store data then damage content files (bit flip, truncation, extension, emptying, bytes of another entry, deletion, symlink substitution) and retrieve through every checked entry point (read, read_hash, streamed reader + check, copy/hard_link/reflink); plus programs in which an entry is retrieved successfully, then rots IN PLACE (same inode, length and timestamps: a flipped bit or another entry's bytes) and is retrieved again in the same process through every checked entry point."},
    "C18": {"flavours": Q3, "suites": [("extract", suite_extract), ("damage_content", suite_damage_content), ("rot", suite_rot)],
            "rule": "copy / hard_link / reflink by key and by address, checked and unchecked, to fresh and existing destinations, on pristine and damaged content; results, byte counts and destination files compared."},
    "C12": {"flavours": Q3, "suites": [("all", suite_all), ("damage", suite_damage), ("crafted", suite_crafted), ("mixed", suite_mixed)],
            "rule": "all op kinds incl. content and index damage on three flavours; each binary must match the one deterministic model step by step and tree by tree, hence each other; plus mixed-flavour programs: one cache directory shared by the sync-only, async-std and tokio binaries, every op routed to a random one of them through its sync or async entry point (writer/reader handles stay with the process that opened them)."},
    "C05": {"flavours": Q3, "suites": [("hist", suite_hist), ("foreign", suite_foreign), ("relist", suite_relist)],
            "rule": "exhaustive histories over 2 keys x 2 values x {insert,remove} x {sync,async} up to length 2 (quick) / 3 (thorough) with lookups of both keys after every step, plus random histories of 3..40 ops (index::insert with random options, real writes, removes) over small and hostile keys, lookups via find/metadata/read/list; plus buckets pre-filled with interleaved records of the key and of foreign keys (as if their SHA-1 collided), foreign tombstones after the key's last write included. Plus relist programs: a lookup, then the key's bucket file is deleted (full removal / clear) and re-created by a write whose record has exactly the same length, then the lookup again in the same process."},
    "C06": {"flavours": Q3, "suites": [("damage", suite_damage), ("bitflips", suite_bitflips)],
            "rule": "buckets of 2..6 reference-written records (tombstones, foreign keys) are damaged: one record cut at every byte length, bit flips, garbage / NUL / invalid-UTF-8 / lone-CR lines, destroyed newlines, duplicated fragments; then lookups through sync and async and the listing, a further API insert, and lookups again; plus every single-bit flip of the first 80 bytes (newline, checksum, tab, start of the JSON) of the newest record (quick) / of every byte of it (thorough)."},
    "C10": {"flavours": Q2, "suites": [("ls", suite_ls), ("damage", suite_damage), ("relist", suite_relist), ("crafted", suite_crafted)], "step_suites": [("fault_listing", steps.suite_fault_listing)],
            "rule": "random histories of 5..60 ops over small and hostile keys followed by metadata of every key and list_sync, every listed entry compared field by field with the model; plus the damaged buckets of C06 (listing vs lookups); plus, with strace, the states a failed call leaves behind: after every single fault (EIO; thorough: ENOSPC, EACCES) of every write / removal / full removal, a fresh process's listing and lookups agree key by key; plus relist programs: list, the key's bucket file deleted (full removal / clear) and re-created with a record of exactly the same length, list again in the same process; plus crafted buckets (a well-hashed newest record that is unusable — integrity that is no digest, fields missing, not an object — after a valid one): listing and lookups must still agree."},
}
