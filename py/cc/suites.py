"""The per-property registry: which correspondence suites (generators) and which flavours serve a property."""
from . import gen

TRUSTED_BASE = [
    "coqc 8.16.1 kernel (vm_compute used in Examples only; no native_compute)",
    "no axioms: every property theorem prints 'Closed under the global context'",
    "extraction to OCaml with ExtrOcamlBasic only (Extract Inductive bool, option, unit, list, prod, sumbool, sumor; Extract Inlined Constant andb, orb)",
    "ocaml/driver.ml (I/O glue, Obj.magic char<->Byte.byte with start-up self-check, hash pipe)",
    "python orchestrator py/cc (generators, canonicalisation, diff), hashlib + libxxhash as the hash oracle",
    "Rust harness harness/src/main.rs (catch_unwind, watchdog, result printing)",
    "modelled, not verified: filesystem semantics (Fs.v exec), serde_json / ssri / base64 / hex / lines() re-implemented in Gallina from their sources, async runtimes not modelled",
]
COMMON_ASSUMPTIONS = [
    "the correspondence is sampling: model and implementation are shown to agree on the generated programs only",
    "keys are valid UTF-8 (Rust &str); integrity arguments well-formed",
    "non-integer JSON numbers and integers outside [-2^63, 2^64) in metadata are outside the modelled domain",
]

def suite_hist(rng, tier, flavour):
    L = 2 if tier == "quick" else 3
    if not (flavour == "tok" and tier == "quick"):
        for p in gen.exhaustive_histories(flavour, L):
            yield p
    n = 80 if tier == "quick" else 600
    for _ in range(n):
        yield gen.random_history(rng, flavour, rng.randrange(3, 40))

def suite_damage(rng, tier, flavour):
    n = 10 if tier == "quick" else 100
    yield from gen.damage_programs(rng, flavour, n, exhaustive_cuts=True)

def suite_ls(rng, tier, flavour):
    n = 80 if tier == "quick" else 600
    for _ in range(n):
        p = gen.random_history(rng, flavour, rng.randrange(5, 60), hostile=0.3, real_writes=0.1)
        yield p

Q2 = {"quick": ["sync", "astd"], "thorough": ["sync", "astd", "tok"]}
Q3 = {"quick": ["sync", "astd", "tok"], "thorough": ["sync", "astd", "tok"]}

REGISTRY = {
    "C05": {"flavours": Q3, "suites": [("hist", suite_hist)],
            "rule": "exhaustive histories over 2 keys x 2 values x {insert,remove} x {sync,async} up to length 2 (quick) / 3 (thorough) with lookups of both keys after every step, plus random histories of 3..40 ops (index::insert with random options, real writes, removes) over small and hostile keys, lookups via find/metadata/read/list."},
    "C06": {"flavours": Q3, "suites": [("damage", suite_damage)],
            "rule": "buckets of 2..6 reference-written records (tombstones, foreign keys) are damaged: one record cut at every byte length, bit flips, garbage / NUL / invalid-UTF-8 / lone-CR lines, destroyed newlines, duplicated fragments; then lookups through sync and async and the listing, a further API insert, and lookups again."},
    "C10": {"flavours": Q2, "suites": [("ls", suite_ls), ("damage", suite_damage)],
            "rule": "random histories of 5..60 ops over small and hostile keys followed by metadata of every key and list_sync, every listed entry compared field by field with the model; plus the damaged buckets of C06 (listing vs lookups)."},
}
