"""Step-level ties to the implementation through strace (py/cc/trace.py): kill points and torn writes (C03, C04),
injected errnos (C13), path confinement and read-only-ness (C15).  Each `suite_*` returns
  {"runs": n, "skipped": n, "failures": [ {concrete: bool, text: str, replay: {...}} ], "dist": {...}}
A failure is *concrete* when a direct oracle (a statement about the implementation's observable behaviour alone) fails
on it; otherwise it is a model/implementation disagreement (reported as no-failing-input-found by check.py)."""
import hashlib, json, os, random, time
from . import trace as T, ops as O, hashes, ref
from .procs import ModelProc, ImplProc

def kx(s):
    return (s if isinstance(s, bytes) else s.encode()).hex()

class AnyTime(dict):
    """every default timestamp of the run lies in one wall-clock window"""
    def __init__(self, lo, hi): self.w = (lo, hi)
    def get(self, k, d=None): return self.w

def now_ms():
    return int(time.time() * 1000)

# ------------------------------------------------------------------------------------------------ helpers
def make_state_fn(flavour, setup_ops):
    def make_state(cache, ext):
        for op in setup_ops:
            if op["op"] == "damage":
                O.apply_damage(op, cache, ext)
        live = [op for op in setup_ops if op["op"] != "damage"]
        if live:
            ip = ImplProc(flavour, cache, ext)
            for op in live:
                ip.op(op)
            ip.close()
    return make_state

def content_oracle(cache):
    """every regular file under content-v2 hashes (independent implementation) to its path; nothing else lives there"""
    bad = []
    root = os.path.join(cache, "content-v2")
    if not os.path.isdir(root):
        return bad
    for d, dirs, files in os.walk(root):
        rel = os.path.relpath(d, root)
        parts = [] if rel == "." else rel.split(os.sep)
        for n in files:
            p = os.path.join(d, n)
            if os.path.islink(p):
                continue
            if len(parts) != 3 or parts[0] not in hashes.ALGOS:
                bad.append(f"unexpected file content-v2/{rel}/{n}")
                continue
            with open(p, "rb") as f:
                data = f.read()
            if hashes.digest(parts[0], data).hex() != parts[1] + parts[2] + n:
                bad.append(f"content-v2/{rel}/{n} holds {len(data)} bytes whose {parts[0]} digest is not its path")
    return bad

def index_oracle(cache):
    """reference parse of every bucket: returns {bucket_rel: [records...]} (ignoring invalid lines) — used to compare other keys"""
    out = {}
    root = os.path.join(cache, "index-v5")
    for d, dirs, files in os.walk(root):
        for n in files:
            p = os.path.join(d, n)
            with open(p, "rb") as f:
                out[os.path.relpath(p, cache)] = f.read()
    return out

def lookups(flavour, cache, ext, keys, fl="sync", reads=True):
    ip = ImplProc(flavour, cache, ext)
    res = {}
    try:
        for k in keys:
            r = ip.op({"op": "metadata", "fl": fl, "key": k})
            res[("meta", k)] = O.canon_impl({"op": "metadata"}, r)
            if reads:
                r = ip.op({"op": "read", "fl": fl, "key": k})
                res[("read", k)] = O.canon_impl({"op": "read"}, r)
        r = ip.op({"op": "list"})
        res["list"] = O.canon_impl({"op": "list"}, r)
    finally:
        ip.close()
    return res

def strip_time(c):
    if c[0] == "ok" and c[1] == "meta" and c[2] is not None:
        return ("ok", "meta", dict(c[2], time=0))
    return c

XC_TRANSCRIPTS = []      # (transcript, hash queries) of `crash` peeks, re-evaluated inside Coq by the caller (extraction cross-check)

def model_states(setup_ops, ops, target):
    """crash states (parsed dumps) of ops[target] in the model, after setup_ops and ops[:target]"""
    m = ModelProc()
    m.transcript = []
    try:
        m.reset()
        m.transcript.clear(); m.queries.clear()
        for op in setup_ops + ops[:target]:
            m.cmd(O.model_line(op))
        first, extra = m.cmd("crash " + O.model_line(ops[target]))
        states, cur = [], None
        for l in extra:
            if l == "state":
                cur = []; states.append(cur)
            else:
                cur.append(l)
        if len(XC_TRANSCRIPTS) < 6:
            XC_TRANSCRIPTS.append((list(m.transcript), list(m.queries)))
        return [O.parse_model_dump(s) for s in states]
    finally:
        m.close()

def in_model(tree, mstates, times):
    for ms in mstates:
        if O.trees_equal(ms, tree, times) is None:
            return True
    return False

# ------------------------------------------------------------------------------------------------ scenarios
NO_MODEL = " [oracles only]"     # scenarios whose crash states are not enumerated in the model (too large): oracles still run

def write_scenarios(binf, tier, rng):
    """(name, setup_ops, ops, targets, keys, new_data) — the write variants of C03 / C04"""
    fls = ["sync"] if binf == "sync" else (["async"] if tier == "quick" else ["sync", "async"])
    K, K2 = kx("k"), kx("other")
    for fl in fls:
        D = b"hello"
        w = {"op": "write", "fl": fl, "key": K, "data": D.hex(), "algo": "sha256"}
        yield (f"{fl} cold one-shot write", [], [w], [0], [K], D)
        yield (f"{fl} warm write, address already present under another key",
               [{"op": "write", "fl": "sync", "key": K2, "data": D.hex(), "algo": "sha256"}], [w], [0], [K, K2], D)
        yield (f"{fl} overwrite of a key (multi-byte metadata)",
               [{"op": "open", "fl": "sync", "w": 9, "key": K, "time": "5", "meta": {"é": "ü中"}}, {"op": "wchunk", "w": 9, "data": b"old!".hex(), "mode": "write_all"},
                {"op": "commit", "w": 9}],
               [{"op": "open", "fl": fl, "w": 1, "key": K, "time": "6", "meta": ["néw", 1]}, {"op": "wchunk", "w": 1, "data": D.hex(), "mode": "write_all"}, {"op": "commit", "w": 1}],
               [2], [K], D)
        yield (f"{fl} write_hash", [], [{"op": "write_hash", "fl": fl, "data": D.hex(), "algo": "sha1"}], [0], [], D)
        yield (f"{fl} streamed keyed, declared size (mapped temp file in sync), two chunks",
               [], [{"op": "open", "fl": fl, "w": 1, "key": K, "size": 4, "algo": "sha512", "time": "7"},
                    {"op": "wchunk", "w": 1, "data": b"ab".hex(), "mode": "write_all"},
                    {"op": "wchunk", "w": 1, "data": b"cd".hex(), "mode": "write_all"}, {"op": "commit", "w": 1}],
               [0, 1, 2, 3], [K], b"abcd")
        yield (f"{fl} streamed by address, declared size, more data than declared",
               [], [{"op": "open", "fl": fl, "w": 1, "size": 3, "algo": "xxh3"},
                    {"op": "wchunk", "w": 1, "data": b"ab".hex(), "mode": "write_all"},
                    {"op": "wchunk", "w": 1, "data": b"cde".hex(), "mode": "write_all"}, {"op": "commit", "w": 1}],
               [1, 2, 3], [], b"abcde")
        yield (f"{fl} streamed by address, declared size 64, only 10 bytes written (temp file trimmed before it is published)",
               [], [{"op": "open", "fl": fl, "w": 1, "size": 64, "algo": "sha256"},
                    {"op": "wchunk", "w": 1, "data": b"0123456789".hex(), "mode": "write_all"}, {"op": "commit", "w": 1}],
               [2], [], b"0123456789")
        yield (f"{fl} streamed keyed, declared size 64, only 10 bytes written, address already present (commit is rejected)",
               [{"op": "write", "fl": "sync", "key": K2, "data": b"0123456789".hex(), "algo": "sha256"}],
               [{"op": "open", "fl": fl, "w": 1, "key": K, "size": 64, "algo": "sha256", "time": "7"},
                {"op": "wchunk", "w": 1, "data": b"0123456789".hex(), "mode": "write_all"}, {"op": "commit", "w": 1}],
               [2], [K, K2], None)
        # a key with a long history (the bucket grows to > 64 KiB): every step of the history is in turn the interrupted
        # one, so that any size-triggered maintenance of the bucket (whatever its threshold) is swept too
        hist = [[{"op": "write", "fl": "sync", "key": K2, "data": b"x".hex(), "algo": "sha256"}]]
        for i in range(18):
            if i % 7 == 6:
                hist.append([{"op": "remove", "fl": fl, "key": K}])
            hist.append([{"op": "open", "fl": fl, "w": 20 + i, "key": K, "time": str(100 + i), "meta": {"pad": "é" * 2000, "i": i}},
                         {"op": "wchunk", "w": 20 + i, "data": (b"v%d" % i).hex(), "mode": "write_all"}, {"op": "commit", "w": 20 + i}])
        for j in range(1, len(hist)):
            pre = [op for h in hist[:j] for op in h]
            yield (f"{fl} step {j} of a long history of one key (bucket up to > 64 KiB)" + NO_MODEL, pre, hist[j], [len(hist[j]) - 1], [K, K2],
                   None if hist[j][0]["op"] == "remove" else b"v")
        yield (f"{fl} remove (tombstone)",
               [{"op": "open", "fl": "sync", "w": 9, "key": K, "time": "5"}, {"op": "wchunk", "w": 9, "data": D.hex(), "mode": "write_all"}, {"op": "commit", "w": 9},
                {"op": "write", "fl": "sync", "key": K2, "data": b"x".hex(), "algo": "sha256"}],
               [{"op": "remove", "fl": fl, "key": K}], [0], [K, K2], None)
        if tier != "quick":
            for n in (1048575, 1048576, 1048577):
                big = bytes((i * 7 + n) % 251 for i in range(n))
                yield (f"{fl} streamed keyed {n} bytes declared (mmap threshold)", [],
                       [{"op": "open", "fl": fl, "w": 1, "key": K, "size": n, "time": "7"},
                        {"op": "wchunk", "w": 1, "data": big[: n // 2].hex(), "mode": "write_all"},
                        {"op": "wchunk", "w": 1, "data": big[n // 2:].hex(), "mode": "write_all"}, {"op": "commit", "w": 1}],
                       [1, 2, 3], [K], big)

def _small_write(c):
    return c.get("count") is not None and (c.get("count") or 0) <= 600

# ------------------------------------------------------------------------------------------------ C03 / C04
def suite_kill_under_fault(binf, tier, rng):
    """C03 under a persistent environment fault: every rename fails (EXDEV, as across filesystems), so publishing the
    content fails; the process is then killed on entry to every later mutating call (and data writes torn).  Incomplete
    data must still never sit under a content address."""
    out = {"runs": 0, "skipped": 0, "failures": [], "dist": {}}
    K = kx("k")
    big = bytes(range(256)) * 1200          # > one copy buffer
    fls = ["sync"] if binf == "sync" else ["async"]
    T.EXTRA_INJECT[:] = ["rename,renameat,renameat2:error=EXDEV"]
    try:
        for fl in fls:
            for name, ops in ((f"{fl} one-shot write, renames fail", [{"op": "write", "fl": fl, "key": K, "data": b"hello".hex(), "algo": "sha256"}]),
                              (f"{fl} write_hash 300 KiB, renames fail", [{"op": "write_hash", "fl": fl, "data": big.hex(), "algo": "sha1"}])):
                def after(cache, ext, C):
                    return {"content_bad": content_oracle(cache)}
                sel = lambda c: c["mutating"] and not c["name"].startswith("rename")
                try:
                    res = T.kill_sweep(binf, make_state_fn(binf, []), ops, 0, after=after, torn=[1, 2, 4096], select=sel, jobs=8)
                except T.TraceError as ex:
                    # the fault-free-of-kills run must at least answer (an error): otherwise nothing to sweep
                    out["dist"]["baseline:" + str(ex)[:60]] = 1
                    continue
                for r in res:
                    out["runs"] += 1
                    if not r["ok"]:
                        out["skipped"] += 1; continue
                    out["dist"][r["call"]["name"]] = out["dist"].get(r["call"]["name"], 0) + 1
                    if r["after"]["content_bad"]:
                        out["failures"].append({"concrete": True, "text": f"{name} / kill before {T.brief(r['call'])[:80]}: {r['after']['content_bad'][0]}",
                                                "replay": {"scenario": name, "flavour": binf, "ops": ops, "environment": list(T.EXTRA_INJECT), "kill_before": T.brief(r["call"]), "torn": r.get("torn")}})
    finally:
        T.EXTRA_INJECT[:] = []
    return out

def crash_crosscheck():
    """the model's crash states used above were produced by the extracted driver: re-evaluate a few of those transcripts inside
    Coq (Drive.drive, vm_compute) and let Coq compare"""
    from . import xcheck
    trs = list(XC_TRANSCRIPTS); XC_TRANSCRIPTS.clear()
    return xcheck.cross_check([], max_chars=400000, transcripts=trs)

def suite_kill(binf, tier, rng, which):
    """which = "C03" (content oracle + model membership at every kill point / torn temp write) or
       "C04" (old-or-new lookups, other keys, content present when new, continuation, index append torn at every length)"""
    out = {"runs": 0, "skipped": 0, "failures": [], "dist": {}, "states_matched_model": 0}
    t_lo = now_ms() - 2000
    for name, setup, ops, targets, keys, data in write_scenarios(binf, tier, rng):
        if which == "C04" and not keys:
            continue
        if which == "C03" and "long history" in name:
            continue
        mk = make_state_fn(binf, setup)
        # fault-free references: lookups before and after the whole operation
        import tempfile, shutil
        base = tempfile.mkdtemp(prefix="ref", dir=T.SCRATCH if os.path.isdir(T.SCRATCH) else None)
        try:
            c0, e0 = os.path.join(base, "c"), os.path.join(base, "e")
            os.makedirs(c0); os.makedirs(e0)
            mk(c0, e0)
            before = lookups(binf, c0, e0, keys)
            ip = ImplProc(binf, c0, e0)
            for op in ops:
                ip.op(op)
            ip.close()
            after_ref = lookups(binf, c0, e0, keys)
            final_bad = content_oracle(c0)          # the state after the whole operation is an instant too
            out["runs"] += 1
            if final_bad:
                out["failures"].append({"concrete": True, "text": f"{name} / after the complete operation: {final_bad[0]}",
                                        "replay": {"scenario": name, "flavour": binf, "setup": setup, "ops": ops}})
        finally:
            shutil.rmtree(base, ignore_errors=True)
        for t in targets:
            big = (data is not None and len(data) > 4096) or name.endswith(NO_MODEL)
            torn = None if (data is not None and len(data) > 4096) or name.endswith(NO_MODEL) else "all"
            def torn_select(c):
                p = c.get("fdpath")
                if not p or p[0] != "c" or not _small_write(c):
                    return False
                return p[1].startswith("index-v5/") if which == "C04" else True
            def after(cache, ext, C, _binf=binf, _keys=keys):
                r = {"tree": O.dump_real(cache, ext), "content_bad": content_oracle(cache)}
                if which == "C04":
                    r["look"] = lookups(_binf, cache, ext, _keys)
                    if _binf != "sync":
                        # the same lookups through the async entry points must agree (C12) — a restart may use either
                        la = lookups(_binf, cache, ext, _keys, fl="async")
                        if {k: strip_time(v) if isinstance(v, tuple) and v[:2] == ("ok", "meta") else v for k, v in la.items() if k != "list"} != \
                           {k: strip_time(v) if isinstance(v, tuple) and v[:2] == ("ok", "meta") else v for k, v in r["look"].items() if k != "list"}:
                            r["async_differs"] = {str(k): str(v)[:120] for k, v in la.items() if k != "list" and v != r["look"].get(k)}
                    # the cache stays usable: a later write to the same key succeeds and is visible
                    ip = ImplProc(_binf, cache, ext)
                    try:
                        w = ip.op({"op": "write", "fl": "sync", "key": _keys[0], "data": b"after-crash".hex(), "algo": "sha256"})
                        rd = ip.op({"op": "read", "fl": "sync", "key": _keys[0]})
                        r["cont"] = (w.get("r"), rd.get("r"), rd.get("v"))
                        if _binf != "sync":
                            rda = ip.op({"op": "read", "fl": "async", "key": _keys[0]})
                            r["cont_async"] = (rda.get("r"), rda.get("v"))
                    finally:
                        ip.close()
                return r
            res = T.kill_sweep(binf, mk, ops, t, after=after, torn=torn, torn_select=torn_select, jobs=8)
            mstates = None if big else model_states(setup, ops, t)
            times = AnyTime(t_lo, now_ms() + 2000)
            for r in res:
                out["runs"] += 1
                tag = f"{name} / op {t} {ops[t]['op']} / kill before {T.brief(r['call'])[:80]}" + (f" torn at {r['torn']}" if r.get("torn") else "")
                if not r["ok"]:
                    out["skipped"] += 1
                    continue
                a = r["after"]
                kind = r["call"]["name"] + (":torn" if r.get("torn") else "")
                out["dist"][kind] = out["dist"].get(kind, 0) + 1
                rep = {"scenario": name, "flavour": binf, "setup": setup, "ops": ops, "target": t, "kill_before": T.brief(r["call"]), "torn": r.get("torn")}
                if a["content_bad"]:
                    out["failures"].append({"concrete": True, "text": f"{tag}: {a['content_bad'][0]}", "replay": rep})
                    continue
                if which == "C04":
                    bad = _c04_oracle(a, before, after_ref, keys, data)
                    if bad:
                        out["failures"].append({"concrete": True, "text": f"{tag}: {bad}", "replay": rep})
                        continue
                # a torn index record carries the timestamp: with a default (wall-clock) time the model's bytes and the
                # implementation's differ in length, so torn states are compared only where the time is explicit
                fp = r["call"].get("fdpath") or ("", "")
                default_time = ops[t]["op"] in ("write", "remove") or (ops[t]["op"] == "commit" and not any("time" in o for o in ops))
                if mstates is not None and not (r.get("torn") and fp[1].startswith("index-v5/") and default_time):
                    if in_model(a["tree"], mstates, times):
                        out["states_matched_model"] += 1
                    else:
                        out["failures"].append({"concrete": False, "text": f"{tag}: the surviving tree is not among the model's {len(mstates)} crash states",
                                                "replay": dict(rep, tree=a["tree"])})
    if binf == "sync":
        n, probs = crash_crosscheck()
        out["crash_states_rechecked_in_coq"] = n
        for pr in probs:
            out["failures"].append({"concrete": False, "text": "extraction cross-check of the crash states: " + pr, "replay": {}})
    return out

def _c04_oracle(a, before, after_ref, keys, data):
    look = a["look"]
    if a.get("async_differs"):
        return f"after the crash the async lookups differ from the sync ones: {a['async_differs']}"
    k0 = keys[0]
    old, new = strip_time(before[("meta", k0)]), strip_time(after_ref[("meta", k0)])
    got = strip_time(look[("meta", k0)])
    if got != old and got != new:
        return f"after the crash the key's lookup is neither the previous nor the new entry: {str(got)[:200]} (old {str(old)[:120]}, new {str(new)[:120]})"
    if got == new and new != old and new[2] is not None:
        rd = look[("read", k0)]
        if rd != after_ref[("read", k0)]:
            return f"the new entry is visible but reading it gives {str(rd)[:120]} instead of the new data"
    if got == old and old[2] is not None and look[("read", k0)] != before[("read", k0)]:
        # the old entry is still what a lookup returns: its data must still be readable
        return f"the previous entry is still visible but reading it gives {str(look[('read', k0)])[:120]}"
    for k in keys[1:]:
        if strip_time(look[("meta", k)]) != strip_time(before[("meta", k)]) or look[("read", k)] != before[("read", k)]:
            return f"another key changed: {k}"
    if a["cont"][0] != "ok" or a["cont"][1] != "ok" or a["cont"][2] != b"after-crash".hex():
        return f"after the crash a new write to the key does not succeed / is not visible: {a['cont']}"
    if "cont_async" in a and a["cont_async"] != ("ok", b"after-crash".hex()):
        return f"after the crash a new write to the key is not visible through the async entry points: {str(a['cont_async'])[:160]}"
    return None

# ------------------------------------------------------------------------------------------------ C13
FAULT_OPS = ["write", "write_hash", "stream", "read", "read_hash", "copy", "remove", "remove_hash", "list", "metadata"]

def fault_scenarios(binf, tier):
    fls = ["sync"] if binf == "sync" else (["async"] if tier == "quick" else ["sync", "async"])
    K, K2 = kx("k"), kx("other")
    D, D2 = b"hello", b"second entry"
    sri = hashes.sri("sha256", D)
    warm = [{"op": "write", "fl": "sync", "key": K, "data": D.hex(), "algo": "sha256"},
            {"op": "write", "fl": "sync", "key": K2, "data": D2.hex(), "algo": "sha1"}]
    for fl in fls:
        yield (f"{fl} write new key (warm cache)", warm, [{"op": "write", "fl": fl, "key": kx("new"), "data": b"fresh".hex(), "algo": "sha256"}], [0], "write", kx("new"), b"fresh")
        yield (f"{fl} write (cold cache)", [], [{"op": "write", "fl": fl, "key": K, "data": D.hex(), "algo": "sha256"}], [0], "write", K, D)
        yield (f"{fl} overwrite key", warm, [{"op": "write", "fl": fl, "key": K, "data": b"newer".hex(), "algo": "sha256"}], [0], "write", K, b"newer")
        yield (f"{fl} write_hash", warm, [{"op": "write_hash", "fl": fl, "data": b"fresh".hex(), "algo": "sha256"}], [0], "write_hash", None, b"fresh")
        yield (f"{fl} streamed, declared size", warm,
               [{"op": "open", "fl": fl, "w": 1, "key": kx("new"), "size": 4}, {"op": "wchunk", "w": 1, "data": b"ab".hex(), "mode": "write_all"},
                {"op": "wchunk", "w": 1, "data": b"cd".hex(), "mode": "write_all"}, {"op": "commit", "w": 1}], [0, 1, 2, 3], "stream", kx("new"), b"abcd")
        yield (f"{fl} read", warm, [{"op": "read", "fl": fl, "key": K}], [0], "read", K, D)
        yield (f"{fl} read_hash", warm, [{"op": "read_hash", "fl": fl, "sri": sri}], [0], "read", None, D)
        yield (f"{fl} metadata", warm, [{"op": "metadata", "fl": fl, "key": K}], [0], "meta", K, None)
        yield (f"{fl} copy", warm, [{"op": "copy", "fl": fl, "by": "key", "checked": True, "key": K, "to": "out1"}], [0], "copy", K, D)
        yield (f"{fl} remove", warm, [{"op": "remove", "fl": fl, "key": K}], [0], "remove", K, None)
        yield (f"{fl} remove_fully", warm, [{"op": "remove_opts", "fl": fl, "key": K, "fully": True}], [0], "remove", K, None)
        yield (f"{fl} remove_hash", warm, [{"op": "remove_hash", "fl": fl, "sri": sri}], [0], "remove_hash", None, None)
        yield (f"list", warm, [{"op": "list"}], [0], "list", None, None)

def suite_fault(binf, tier, rng):
    out = {"runs": 0, "skipped": 0, "failures": [], "dist": {}}
    errnos = ("EIO", "ENOSPC", "EACCES") if tier == "quick" else ("EIO", "ENOSPC", "EACCES", "EMFILE")
    K, K2 = kx("k"), kx("other")
    import tempfile, shutil
    for name, setup, ops, targets, kind, key, data in fault_scenarios(binf, tier):
        mk = make_state_fn(binf, setup)
        # fault-free reference run
        base = tempfile.mkdtemp(prefix="ref", dir=T.SCRATCH if os.path.isdir(T.SCRATCH) else None)
        try:
            c0, e0 = os.path.join(base, "c"), os.path.join(base, "e")
            os.makedirs(c0); os.makedirs(e0)
            mk(c0, e0)
            others = [k for k in (K, K2) if k != key]
            before = lookups(binf, c0, e0, [K, K2])
            ip = ImplProc(binf, c0, e0)
            ref_results = [ip.op(op) for op in ops]
            ip.close()
        finally:
            shutil.rmtree(base, ignore_errors=True)
        for t in targets:
            def after(cache, ext, C, errno, _binf=binf):
                r = {"content_bad": content_oracle(cache), "look": lookups(_binf, cache, ext, [K, K2]),
                     "tmp": sorted(os.listdir(os.path.join(cache, "tmp"))) if os.path.isdir(os.path.join(cache, "tmp")) else []}
                if key is not None:
                    r["own"] = lookups(_binf, cache, ext, [key])
                return r
            res = T.fault_sweep(binf, mk, ops, t, errnos=errnos, after=after, jobs=8)
            for r in res:
                out["runs"] += 1
                if not r["ok"]:
                    out["skipped"] += 1
                    continue
                C, errno = r["call"], r["errno"]
                tag = f"{name} / op {t} {ops[t]['op']} / {errno} at {T.brief(C)[:70]}"
                rep = {"scenario": name, "flavour": binf, "setup": setup, "ops": ops, "target": t, "errno": errno, "at": T.brief(C)}
                ans = r["results"]
                tr = ans[t] if t < len(ans) else None
                cls = "dead" if tr is None else tr.get("r")
                out["dist"][f"{kind}:{cls}"] = out["dist"].get(f"{kind}:{cls}", 0) + 1
                a = r["after"]
                def fail(text):
                    out["failures"].append({"concrete": True, "text": f"{tag}: {text}", "replay": rep})
                if r.get("died") or r.get("hang") or cls in ("panic", "hang", "dead", None):
                    fail(f"the call did not return an error value: {cls} {str(tr)[:160]}"); continue
                if a["content_bad"]:
                    fail(a["content_bad"][0]); continue
                # other entries unaffected
                changed = [k for k in others if strip_time(a["look"][("meta", k)]) != strip_time(before[("meta", k)])
                           or a["look"][("read", k)] != before[("read", k)]]
                if kind == "remove_hash":
                    changed = [k for k in changed if k != K]      # K's content is what remove_hash removes
                if changed:
                    fail(f"an entry the call does not name changed: {changed}"); continue
                whole = ans[len(ops) - 1] if len(ans) >= len(ops) else None
                final_ok = whole is not None and whole.get("r") == "ok" and all(x is not None and x.get("r") == "ok" for x in ans[:len(ops)])
                # truthful success
                if kind in ("write", "stream") and final_ok and key is not None:
                    got = a["own"][("read", key)]
                    if got != ("ok", "bytes", data.hex()):
                        fail(f"the write reported success but reading the key gives {str(got)[:140]}"); continue
                if kind == "write_hash" and final_ok:
                    pass
                if kind == "read" and cls == "ok" and tr.get("v") != data.hex():
                    fail(f"a read returned bytes that were never stored: {str(tr.get('v'))[:80]}"); continue
                if kind == "meta" and cls == "ok" and strip_time(O.canon_impl({"op": "metadata"}, tr)) != strip_time(before[("meta", key)]):
                    fail(f"metadata answered {str(tr)[:160]} for an entry that exists unchanged"); continue
                if kind == "list" and cls == "ok":
                    got = O.canon_impl({"op": "list"}, tr)
                    if any(i[0] == "meta" for i in got[2]) and sorted(i[1]["key"] for i in got[2] if i[0] == "meta") != sorted([K, K2]) and not any(i[0] == "err" for i in got[2]):
                        fail(f"the listing silently lost entries: {str(got)[:200]}"); continue
                # an error leaves no half-made entry for the caller's key: old or complete new
                if kind in ("write", "stream", "remove") and key is not None and not final_ok:
                    got = strip_time(a["own"][("meta", key)])
                    if got[0] != "ok":
                        fail(f"after the failed call a lookup of the key errs: {str(got)[:140]}"); continue
                    # (a failed *full removal* may already have deleted the content: a documented two-step deletion; the
                    #  property asks that the retry succeeds, which suite_fault_retry checks)
                    if got[2] is not None and not (kind == "remove" and ops[t].get("fully")):
                        rd = a["own"][("read", key)]
                        if rd[0] != "ok":
                            fail(f"after the failed call the key is visible but unreadable: {str(rd)[:140]}"); continue
                # (a temp file left behind by a failed call is NOT a violation: the property speaks of the content and index
                #  areas only, and in the async flavours the blocking task unlinks it after the answer is sent, so whether
                #  the harness process still sees it is a race — counted for the evidence file, never alarmed on)
                if kind in ("write", "stream", "write_hash", "copy") and not final_ok and t == len(ops) - 1 and a["tmp"]:
                    out["dist"]["tmp_left_after_failed_call(info)"] = out["dist"].get("tmp_left_after_failed_call(info)", 0) + 1
    return out

def suite_fsize(binf, tier, rng):
    """C13 with genuine short writes: the process's file-size limit is lowered in the middle of a streamed write, so one
    write(2) into the temp file is short and the next fails (EFBIG); the caller drives the stream with single write()
    calls, retries the failed call after the limit is lifted, commits.  If commit reports success the key reads back
    exactly the bytes that were acknowledged; every content file hashes to its path."""
    import tempfile, shutil
    out = {"runs": 0, "skipped": 0, "failures": [], "dist": {}}
    fls = ["sync"] if binf == "sync" else ["sync", "async"]
    CH = 65536
    for fl in fls:
        for limit, total, keyed in ((100 * 1024, 200 * 1024, True), (70000, 3 * CH + 17, False), (CH + 1, 2 * CH, True)) if tier != "quick" else ((100 * 1024, 200 * 1024, True), (70000, 3 * CH + 17, False)):
            data = bytes((i * 13 + 7) % 251 for i in range(total))
            base = tempfile.mkdtemp(prefix="fz", dir=T.SCRATCH if os.path.isdir(T.SCRATCH) else None)
            name = f"{fl} streamed {'keyed' if keyed else 'by address'} {total} bytes in {CH}-byte write() calls, file size limit {limit} during the stream"
            rep = {"flavour": binf, "scenario": name}
            try:
                c, e = os.path.join(base, "c"), os.path.join(base, "e")
                os.makedirs(c); os.makedirs(e)
                K = kx("fsz")
                ip = ImplProc(binf, c, e)
                op = {"op": "open", "fl": fl, "w": 1, "algo": "sha256"}
                if keyed: op["key"] = K
                r = ip.op(op)
                pos, acked, errs, limited = 0, b"", 0, False
                ok = r.get("r") == "ok"
                steps = 0
                while ok and pos < total and steps < 200:
                    steps += 1
                    if not limited and pos >= CH:
                        ip.op({"op": "rlimit_fsize", "n": limit}); limited = True
                    chunk = data[pos:pos + CH]
                    r = ip.op({"op": "wchunk", "w": 1, "data": chunk.hex(), "mode": "write"})
                    if r.get("r") == "ok":
                        n = r.get("v") or 0
                        if n == 0 and chunk:
                            errs += 1
                            if errs > 3: break
                            continue
                        acked += chunk[:n]; pos += n
                    elif r.get("r") == "err":
                        errs += 1
                        ip.op({"op": "rlimit_fsize", "n": None})            # the fault is gone: retry the same call
                        if errs > 6: break
                    else:
                        out["failures"].append({"concrete": True, "text": f"{name}: write() answered {r.get('r')}", "replay": rep}); ok = False
                ip.op({"op": "rlimit_fsize", "n": None})
                out["runs"] += 1
                out["dist"][f"{fl}: write() calls that failed (EFBIG)"] = out["dist"].get(f"{fl}: write() calls that failed (EFBIG)", 0) + errs
                if not ok:
                    ip.close(); continue
                rc = ip.op({"op": "commit", "w": 1})
                bad = content_oracle(c)
                if bad:
                    out["failures"].append({"concrete": True, "text": f"{name}: after commit ({rc.get('r')}) {bad[0]}", "replay": rep})
                elif rc.get("r") == "ok" and pos == total:
                    rd = ip.op({"op": "read", "fl": "sync", "key": K}) if keyed else ip.op({"op": "read_hash", "fl": "sync", "sri": rc.get("v")})
                    if rd.get("r") != "ok" or rd.get("v") != acked.hex():
                        out["failures"].append({"concrete": True, "text": f"{name}: commit reported success but reading back gives {str(rd)[:120]} instead of the {len(acked)} acknowledged bytes", "replay": rep})
                    if keyed is False and rc.get("v") != hashes.sri("sha256", acked):
                        out["failures"].append({"concrete": True, "text": f"{name}: the returned address is not the digest of the acknowledged bytes", "replay": rep})
                ip.close()
            finally:
                shutil.rmtree(base, ignore_errors=True)
    return out

def suite_conc3(binf, tier, rng):
    """forced schedules with THREE operations: A is parked on entry to its i-th cache system call, then B (a second process)
    is parked on entry to its j-th, then C (a third process) runs to completion, then B resumes and finishes, then A.
    The three results and the final tree must be those of one of the six serial orders."""
    import tempfile, shutil, threading, itertools
    from concurrent.futures import ThreadPoolExecutor
    out = {"runs": 0, "skipped": 0, "failures": [], "dist": {}, "orders_seen": {}}
    fl = "sync" if binf == "sync" else "async"
    ops = conc_ops(fl)
    K = kx("k")
    warm = [{"op": "write", "fl": "sync", "key": K, "data": b"content A".hex(), "algo": "sha256"}]
    triples = [("write k B", "remove k", "read k")] if tier == "quick" else \
              [("write k B", "remove k", "read k"), ("write k B", "write k A", "metadata k"), ("write k2 A", "write k B", "read_hash A"),
               ("remove k", "write k B", "write k2 A"), ("write k B", "write k A", "remove k")]
    npts = 2 if tier == "quick" else 4
    def run_serial(setup, order):
        base = tempfile.mkdtemp(prefix="s3", dir=T.SCRATCH)
        try:
            c, e = os.path.join(base, "c"), os.path.join(base, "e")
            os.makedirs(c); os.makedirs(e)
            make_state_fn(binf, setup)(c, e)
            res = {}
            for name in order:
                ip = ImplProc(binf, c, e); r = [ip.op(o) for o in _as_list(ops[name])][-1]; ip.close()
                res[name] = _canon_obs(ops[name], r)
            return res, _canon_tree(c, e)
        finally:
            shutil.rmtree(base, ignore_errors=True)
    def points(setup, name):
        base = tempfile.mkdtemp(prefix="p3", dir=T.SCRATCH)
        try:
            c, e = os.path.join(base, "c"), os.path.join(base, "e")
            os.makedirs(c); os.makedirs(e)
            make_state_fn(binf, setup)(c, e)
            tr = T.trace_ops(binf, c, e, _as_list(ops[name]), want_reads=True, warmup=T.default_warmup(binf))
            lo, hi = tr["spans"][-1]
            pts = [(x["name"], x["thread_ord"], x.get("role"), T.brief(x)[:70]) for x in tr["calls"][lo:hi]
                   if any(r == "c" for r, _ in (x.get("paths") or [])) or (x.get("fdpath") or ("",))[0] == "c"]
            T.cleanup(tr)
            return pts
        finally:
            shutil.rmtree(base, ignore_errors=True)
    jobs = []
    for (an, bn, cn) in triples:
        for sname, setup in (("warm", warm),) if tier == "quick" else (("cold", []), ("warm", warm)):
            refs = []
            for order in itertools.permutations((an, bn, cn)):
                res, tree = run_serial(setup, order)
                refs.append((order, (res[an], res[bn], res[cn]), tree))
            pa, pb = points(setup, an), points(setup, bn)
            if not pa or not pb:
                continue
            pa = rng.sample(pa, min(npts, len(pa))); pb = rng.sample(pb, min(npts, len(pb)))
            for x in pa:
                for y in pb:
                    jobs.append((sname, setup, an, bn, cn, x, y, refs))
    def parked(c, e, op, pt, delay_us, box):
        name, ordn, role, desc = pt
        try:
            tr = T.trace_ops(binf, c, e, _as_list(op), inject=f"{name}:delay_enter={delay_us}:when={ordn}", warmup=T.default_warmup(binf),
                             only=role if role in ("cch-worker", "blocking-1", "tokio-rt-worker") else None, timeout=60)
            box["r"] = tr["results"][-1]
            T.cleanup(tr)
        except Exception as ex:
            box["err"] = repr(ex)[:200]
    def one(job):
        sname, setup, an, bn, cn, x, y, refs = job
        base = tempfile.mkdtemp(prefix="c3", dir=T.SCRATCH)
        try:
            c, e = os.path.join(base, "c"), os.path.join(base, "e")
            os.makedirs(c); os.makedirs(e)
            make_state_fn(binf, setup)(c, e)
            ra, rb = {}, {}
            ta = threading.Thread(target=parked, args=(c, e, ops[an], x, 2400000, ra)); ta.start()
            time.sleep(0.5)
            tb = threading.Thread(target=parked, args=(c, e, ops[bn], y, 1100000, rb)); tb.start()
            time.sleep(0.6)
            ip = ImplProc(binf, c, e); rc = [ip.op(o) for o in _as_list(ops[cn])][-1]; ip.close()
            tb.join(); ta.join()
            if "err" in ra or "err" in rb:
                return ("skip", job, ra.get("err") or rb.get("err"))
            return ("done", job, ((_canon_obs(ops[an], ra["r"]), _canon_obs(ops[bn], rb["r"]), _canon_obs(ops[cn], rc)), _canon_tree(c, e)))
        finally:
            shutil.rmtree(base, ignore_errors=True)
    with ThreadPoolExecutor(max_workers=6) as ex:
        for status, job, got in ex.map(one, jobs):
            sname, setup, an, bn, cn, x, y, refs = job
            out["runs"] += 1
            if status == "skip":
                out["skipped"] += 1; continue
            key = f"{an} || {bn} || {cn}"
            out["dist"][key] = out["dist"].get(key, 0) + 1
            hit = [order for order, res, tree in refs if (res, tree) == got]
            if hit:
                o = " ; ".join(hit[0]); out["orders_seen"][o] = out["orders_seen"].get(o, 0) + 1
            else:
                why = "results" if got[0] not in [r for _, r, _ in refs] else "final state"
                out["failures"].append({"concrete": True,
                    "text": f"{sname} cache, A = {an} parked before {x[3]}, B = {bn} parked before {y[3]}, C = {cn} ran, then B, then A: the {why} match none of the six serial orders "
                            f"(A: {str(got[0][0])[:80]}, B: {str(got[0][1])[:80]}, C: {str(got[0][2])[:80]})",
                    "replay": {"flavour": binf, "setup": setup, "A": ops[an], "B": ops[bn], "C": ops[cn], "A_parked_before": x[:2] + (x[3],), "B_parked_before": y[:2] + (y[3],),
                               "observed": [str(g)[:300] for g in got[0]] + [got[1]], "serial_orders": [[list(o), [str(r)[:200] for r in res]] for o, res, _ in refs]}})
    return out

def suite_fault_listing(binf, tier, rng):
    """C10 in the states a failed call leaves behind: after every single fault of every mutating call, the listing and
    the lookups of a fresh process agree — a key is listed iff a lookup finds it, with the same fields, once."""
    out = {"runs": 0, "skipped": 0, "failures": [], "dist": {}}
    errnos = ("EIO",) if tier == "quick" else ("EIO", "ENOSPC", "EACCES")
    K, K2 = kx("k"), kx("other")
    for name, setup, ops, targets, kind, key, data in fault_scenarios(binf, tier):
        if kind not in ("write", "stream", "remove"):
            continue
        keys = sorted({K, K2} | ({key} if key else set()))
        mk = make_state_fn(binf, setup)
        for t in targets:
            if ops[t]["op"] in ("open", "wchunk"):
                continue
            def after(cache, ext, C, errno, _binf=binf, _keys=keys):
                return {"look": lookups(_binf, cache, ext, _keys, reads=False)}
            res = T.fault_sweep(binf, mk, ops, t, errnos=errnos, after=after, jobs=8)
            for r in res:
                out["runs"] += 1
                if not r["ok"]:
                    out["skipped"] += 1; continue
                look = r["after"]["look"]
                tag = f"{name} / op {t} {ops[t]['op']} / {r['errno']} at {T.brief(r['call'])[:70]}"
                rep = {"scenario": name, "flavour": binf, "setup": setup, "ops": ops, "target": t, "errno": r["errno"], "at": T.brief(r["call"])}
                lst = look["list"]
                if lst[0] != "ok" or any(i[0] == "err" for i in lst[2]):
                    out["dist"]["listing reports an error"] = out["dist"].get("listing reports an error", 0) + 1
                    continue
                listed = {}
                dup = None
                for i in lst[2]:
                    k = i[1]["key"]
                    if k in listed: dup = k
                    listed[k] = i[1]
                if dup is not None:
                    out["failures"].append({"concrete": True, "text": f"{tag}: the listing yields key {dup} twice", "replay": rep}); continue
                for k in keys:
                    m = look[("meta", k)]
                    if m[0] != "ok":
                        continue
                    found = m[2]
                    if (found is None) != (k not in listed):
                        out["failures"].append({"concrete": True, "text": f"{tag}: after the failed call key {k} is {'listed' if k in listed else 'not listed'} but a lookup {'finds nothing' if found is None else 'finds it'}", "replay": rep}); break
                    if found is not None and {x: found[x] for x in ("sri", "size", "time")} != {x: listed[k][x] for x in ("sri", "size", "time")}:
                        out["failures"].append({"concrete": True, "text": f"{tag}: listed entry of {k} differs from the lookup: {str(listed[k])[:100]} vs {str(found)[:100]}", "replay": rep}); break
                out["dist"][kind] = out["dist"].get(kind, 0) + 1
    return out

def suite_fault_damaged(binf, tier, rng):
    """C01 with faults: the content of an entry is damaged (same length), and during a checked retrieval one system call
    fails (EIO, or EINTR which the standard library re-issues).  Whatever fails, the call answers an error or hands out exactly
    the stored bytes — here an error, the stored bytes being gone; no destination holds the damaged bytes after a success."""
    out = {"runs": 0, "skipped": 0, "failures": [], "dist": {}}
    fls = ["sync"] if binf == "sync" else (["async"] if tier == "quick" else ["sync", "async"])
    K = kx("dmg")
    for fl in fls:
        for n in (20000,) if tier == "quick" else (20000, 5, 70000):
            D = bytes((i * 17 + 3) % 251 for i in range(n))
            bad = bytearray(D); bad[n // 2] ^= 0x40; bad = bytes(bad)
            sri = hashes.sri("sha256", D)
            setup = [{"op": "write", "fl": "sync", "key": K, "data": D.hex(), "algo": "sha256"},
                     {"op": "damage", "kind": "set", "loc": ref.loc_c(ref.content_rel(sri)), "data": bad.hex()}]
            def mk(cache, ext, _setup=setup):
                ip = ImplProc(binf, cache, ext); ip.op(_setup[0]); ip.close()
                O.apply_damage(_setup[1], cache, ext)
            scen = [("copy by key", {"op": "copy", "fl": fl, "by": "key", "checked": True, "key": K, "to": "out1"}),
                    ("copy by address", {"op": "copy", "fl": fl, "by": "hash", "checked": True, "sri": sri, "to": "out1"}),
                    ("hard link by key", {"op": "hard_link", "fl": fl, "by": "key", "checked": True, "key": K, "to": "out1"}),
                    ("read by key", {"op": "read", "fl": fl, "key": K}),
                    ("read by address", {"op": "read_hash", "fl": fl, "sri": sri})]
            for what, op in scen if tier != "quick" else scen[:2] + scen[3:4]:
                def after(cache, ext, C, errno):
                    p = os.path.join(ext, "out1")
                    if os.path.lexists(p) and os.path.isfile(p):
                        with open(p, "rb") as f: return {"dest": f.read()}
                    return {"dest": None}
                res = T.fault_sweep(binf, mk, [op], 0, errnos=("EIO", "EINTR"), after=after, jobs=8,
                                    select=lambda c: c["name"] in ("read", "pread64", "readv", "openat", "open", "statx", "fstat", "newfstatat", "copy_file_range", "sendfile", "linkat", "link") and T._inside(c))
                for r in res:
                    out["runs"] += 1
                    if not r["ok"]:
                        out["skipped"] += 1; continue
                    ans = (r["results"] or [None])[0]
                    tag = f"{fl} {what} of an entry whose {n}-byte content is damaged / {r['errno']} at {T.brief(r['call'])[:70]}"
                    rep = {"flavour": binf, "setup": setup, "ops": [op], "errno": r["errno"], "at": T.brief(r["call"])}
                    cls = None if ans is None else ans.get("r")
                    out["dist"][f"{what}: {cls}"] = out["dist"].get(f"{what}: {cls}", 0) + 1
                    if cls in (None, "panic", "hang"):
                        out["failures"].append({"concrete": True, "text": f"{tag}: the call did not return a value ({cls})", "replay": rep}); continue
                    if cls == "ok":
                        if op["op"] in ("read", "read_hash"):
                            if ans.get("v") != D.hex():
                                out["failures"].append({"concrete": True, "text": f"{tag}: a checked read returned bytes that are not the stored ones", "replay": rep})
                        else:
                            dest = r["after"]["dest"]
                            if dest != D:
                                out["failures"].append({"concrete": True, "text": f"{tag}: the call reported success and the destination holds {'nothing' if dest is None else 'bytes that are not the stored ones'}", "replay": rep})
    return out

def suite_eintr(binf, tier, rng):
    """C08 under interrupted system calls: a streamed write whose declared size and integrity are CORRECT, with one write(2)
    of its data interrupted (EINTR; the standard library re-issues it).  If every call of the writer answered ok, commit must
    succeed (the declarations match), map the key, and the data must read back; no content file may mis-hash."""
    out = {"runs": 0, "skipped": 0, "failures": [], "dist": {}}
    fls = ["sync"] if binf == "sync" else ["sync", "async"]
    K = kx("eintr")
    for fl in fls:
        for algo, n, csz in (("sha256", 40000, 7777), ("sha1", 9, 3)) if tier == "quick" else (("sha256", 40000, 7777), ("sha1", 9, 3), ("sha512", 2 * 1048576 + 5, 1048576), ("xxh3", 70000, 16384)):
            data = bytes((i * 31 + 5) % 253 for i in range(n))
            ops = [{"op": "open", "fl": fl, "w": 1, "key": K, "algo": algo, "sri": hashes.sri(algo, data)}]
            if n <= 9:
                ops[0]["size"] = n
            ops += [{"op": "wchunk", "w": 1, "data": data[i:i + csz].hex(), "mode": "write_all"} for i in range(0, n, csz)]
            ops.append({"op": "commit", "w": 1})
            name = f"{fl} streamed write of {n} bytes ({algo}) with correct declared integrity, one write(2) interrupted"
            mk = make_state_fn(binf, [])
            for t in range(1, len(ops) - 1):
                def after(cache, ext, C, errno, _binf=binf):
                    return {"content_bad": content_oracle(cache), "own": lookups(_binf, cache, ext, [K])}
                res = T.fault_sweep(binf, mk, ops, t, errnos=("EINTR",), after=after, jobs=8,
                                    select=lambda c: c["name"] in ("write", "pwrite64", "writev") and T._inside(c))
                for r in res:
                    out["runs"] += 1
                    if not r["ok"]:
                        out["skipped"] += 1; continue
                    ans = r["results"] or []
                    tag = f"{name} / op {t} / EINTR at {T.brief(r['call'])[:70]}"
                    rep = {"scenario": name, "flavour": binf, "ops": ops, "target": t, "errno": "EINTR", "at": T.brief(r["call"])}
                    a = r["after"]
                    if a["content_bad"]:
                        out["failures"].append({"concrete": True, "text": f"{tag}: {a['content_bad'][0]}", "replay": rep}); continue
                    allok = len(ans) >= len(ops) - 1 and all(x is not None and x.get("r") == "ok" for x in ans[:len(ops) - 1])
                    out["dist"]["all writer calls ok" if allok else "a writer call reported the interruption"] = out["dist"].get("all writer calls ok" if allok else "a writer call reported the interruption", 0) + 1
                    if not allok:
                        continue
                    cm = ans[len(ops) - 1] if len(ans) >= len(ops) else None
                    if cm is None or cm.get("r") != "ok":
                        out["failures"].append({"concrete": True, "text": f"{tag}: every write call succeeded and the declarations match the data, but commit answered {str(cm)[:120]}", "replay": rep}); continue
                    got = a["own"][("read", K)]
                    if got != ("ok", "bytes", data.hex()):
                        out["failures"].append({"concrete": True, "text": f"{tag}: commit succeeded but reading the key gives {str(got)[:120]}", "replay": rep})
    return out

def suite_fault_retry(binf, tier, rng):
    """once the fault is gone the same call succeeds: failed call, then the same op again in the same process"""
    out = {"runs": 0, "skipped": 0, "failures": [], "dist": {}}
    errnos = ("EIO",) if tier == "quick" else ("EIO", "ENOSPC", "EACCES", "EMFILE")
    for name, setup, ops, targets, kind, key, data in fault_scenarios(binf, tier):
        if kind not in ("write", "stream", "read", "copy", "remove", "write_hash"):
            continue
        mk = make_state_fn(binf, setup)
        for t in targets:
            if ops[t]["op"] in ("open", "commit"):
                continue                   # retrying those re-uses a handle: not "the same call"
            ops2 = ops[: t + 1] + [ops[t]] + ops[t + 1:]
            if kind == "copy":
                ops2 = ops[: t + 1] + [dict(ops[t], to="out2")] + ops[t + 1:]
            if key is not None and kind != "remove":
                ops2 = ops2 + [{"op": "read", "fl": "sync", "key": key}]
            res = T.fault_sweep(binf, mk, ops2, t, errnos=errnos, jobs=8)
            for r in res:
                out["runs"] += 1
                if not r["ok"]:
                    out["skipped"] += 1; continue
                ans = r["results"]
                tag = f"{name} / op {t} / {r['errno']} at {T.brief(r['call'])[:70]} then retry"
                rep = {"scenario": name, "flavour": binf, "setup": setup, "ops": ops2, "target": t, "errno": r["errno"], "at": T.brief(r["call"])}
                first, retry = ans[t], ans[t + 1] if len(ans) > t + 1 else None
                out["dist"][f"{kind}:{first.get('r') if first else 'dead'}->{retry.get('r') if retry else 'dead'}"] = out["dist"].get(f"{kind}:{first.get('r') if first else 'dead'}->{retry.get('r') if retry else 'dead'}", 0) + 1
                if first is None or retry is None:
                    out["failures"].append({"concrete": True, "text": f"{tag}: the process died", "replay": rep}); continue
                if first.get("r") == "err" and retry.get("r") != "ok" and not (kind == "remove" and retry.get("r") == "err" and retry.get("e") == "NotFound"):
                    out["failures"].append({"concrete": True, "text": f"{tag}: the same call fails again without a fault: {str(retry)[:160]}", "replay": rep}); continue
                if key is not None and kind in ("write", "stream") and all(x is not None and x.get("r") == "ok" for x in ans[t + 1:]):
                    last = ans[-1]
                    want = data if kind == "write" else (b"ab" + b"ab" + b"cd" if False else None)
                    if kind == "write" and last.get("v") != data.hex():
                        out["failures"].append({"concrete": True, "text": f"{tag}: after the successful retry the key reads {str(last)[:120]}", "replay": rep}); continue
                    if kind == "stream" and last.get("r") != "ok":
                        out["failures"].append({"concrete": True, "text": f"{tag}: commit reported success but the key reads {str(last)[:120]}", "replay": rep}); continue
    return out

# ------------------------------------------------------------------------------------------------ C16
def suite_rewrite_kill(binf, tier, rng):
    """C16 "storing the same bytes again leaves the stored copy byte-identical": while equal data is re-written (any entry
    point), the process is killed on entry to every mutating system call; in every surviving directory the stored copy is
    still there with the same bytes and the key that pointed at it still reads them."""
    out = {"runs": 0, "skipped": 0, "failures": [], "dist": {}}
    K, K2 = kx("first"), kx("second")
    fls = ["sync"] if binf == "sync" else ["async"]
    algos = ["sha256"] if tier == "quick" else ["sha256", "sha1", "sha512", "xxh3"]
    for fl in fls:
        for algo in algos:
            D = b"the very same bytes " + algo.encode()
            setup = [{"op": "write", "fl": "sync", "key": K, "data": D.hex(), "algo": algo}]
            rel = os.path.join("content-v2", algo, *(lambda h: (h[:2], h[2:4], h[4:]))(hashes.digest(algo, D).hex()))
            variants = [
                ("one-shot, other key", [{"op": "write", "fl": fl, "key": K2, "data": D.hex(), "algo": algo}], [0]),
                ("one-shot, same key", [{"op": "write", "fl": fl, "key": K, "data": D.hex(), "algo": algo}], [0]),
                ("write_hash", [{"op": "write_hash", "fl": fl, "data": D.hex(), "algo": algo}], [0]),
                ("streamed, declared size", [{"op": "open", "fl": fl, "w": 1, "key": K2, "size": len(D), "algo": algo},
                                             {"op": "wchunk", "w": 1, "data": D.hex(), "mode": "write_all"}, {"op": "commit", "w": 1}], [2]),
                ("streamed by address", [{"op": "open", "fl": fl, "w": 1, "algo": algo},
                                         {"op": "wchunk", "w": 1, "data": D[:7].hex(), "mode": "write_all"},
                                         {"op": "wchunk", "w": 1, "data": D[7:].hex(), "mode": "write_all"}, {"op": "commit", "w": 1}], [3]),
            ]
            if tier == "quick":
                variants = variants[:1] + variants[3:4] if algo != "sha256" else variants
            for vname, ops, targets in variants:
                name = f"{fl} {algo} re-write of stored bytes: {vname}"
                mk = make_state_fn(binf, setup)
                for t in targets:
                    def after(cache, ext, C, _binf=binf, _rel=rel):
                        p = os.path.join(cache, _rel)
                        r = {"present": os.path.isfile(p) and not os.path.islink(p)}
                        if r["present"]:
                            with open(p, "rb") as f: r["same"] = f.read() == D
                        r["look"] = lookups(_binf, cache, ext, [K])
                        return r
                    try:
                        res = T.kill_sweep(binf, mk, ops, t, after=after, torn=None, jobs=8)
                    except T.TraceError as ex:
                        out["dist"]["baseline:" + str(ex)[:60]] = 1
                        continue
                    for r in res:
                        out["runs"] += 1
                        if not r["ok"]:
                            out["skipped"] += 1; continue
                        a = r["after"]
                        out["dist"][r["call"]["name"]] = out["dist"].get(r["call"]["name"], 0) + 1
                        tag = f"{name} / op {t} / kill before {T.brief(r['call'])[:80]}"
                        rep = {"scenario": name, "flavour": binf, "setup": setup, "ops": ops, "target": t, "kill_before": T.brief(r["call"])}
                        if not a["present"]:
                            out["failures"].append({"concrete": True, "text": f"{tag}: the stored copy {rel} is gone", "replay": rep}); continue
                        if not a.get("same"):
                            out["failures"].append({"concrete": True, "text": f"{tag}: the stored copy {rel} no longer holds the same bytes", "replay": rep}); continue
                        if a["look"][("read", K)] != ("ok", "bytes", D.hex()):
                            out["failures"].append({"concrete": True, "text": f"{tag}: the first key no longer reads the bytes: {str(a['look'][('read', K)])[:120]}", "replay": rep})
    return out

# ------------------------------------------------------------------------------------------------ C15
HOSTILE = ["", "x" * 300, "tab\there", "nl\nhere", 'q"uote\\', "nul\x00byte", "../../etc/passwd", "/abs/path", "..", ".", "a/../b",
           "CaSe", "case", "é", "é", "\U0001F600", "a\rb", "~", "$HOME", "con", "tmp/../../x"]
READONLY_OPS = {"read", "read_hash", "metadata", "find", "exists", "list", "ropen", "ropen_hash", "rchunk", "rall", "rcheck", "rdrop"}

def suite_confine(binf, tier, rng):
    out = {"runs": 0, "skipped": 0, "failures": [], "dist": {}}
    fls = ["sync"] if binf == "sync" else ["sync", "async"]
    import tempfile, shutil
    keys = HOSTILE if tier != "quick" else rng.sample(HOSTILE, 10) + ["../../etc/passwd", "nul\x00byte"]
    keys = keys + ["".join(chr(rng.choice([rng.randrange(32, 127), rng.randrange(0xa0, 0x2000), rng.randrange(0x1f300, 0x1f600)])) for _ in range(rng.randrange(1, 12)))
                   for _ in range(3 if tier == "quick" else 20)]
    keys = keys + ["@ABS@"]
    for key in keys:
        fl = rng.choice(fls)
        base = tempfile.mkdtemp(prefix="cf", dir=T.SCRATCH if os.path.isdir(T.SCRATCH) else None)
        absk = key == "@ABS@"
        if absk:
            # a key that is an absolute path into an existing directory outside the cache and outside the caller's directory
            key = os.path.join(base, "escape", "target")
        K = kx(key)
        D = rng.randbytes(rng.choice([0, 1, 7, 300]))
        sri = hashes.sri("sha256", D)
        ops = [{"op": "write", "fl": fl, "key": K, "data": D.hex(), "algo": "sha256"},
               # extraction whose destination is an existing directory: an error, and nothing is written below it
               {"op": "copy", "fl": fl, "by": "key", "checked": True, "key": K, "to": "dir1"},
               {"op": "copy", "fl": fl, "by": "key", "checked": False, "key": K, "to": "dir1"},
               {"op": "hard_link", "fl": fl, "by": "key", "checked": True, "key": K, "to": "dir1"},
               {"op": "metadata", "fl": fl, "key": K}, {"op": "read", "fl": fl, "key": K}, {"op": "read_hash", "fl": fl, "sri": sri},
               {"op": "exists", "fl": fl, "sri": sri}, {"op": "list"},
               {"op": "ropen", "fl": fl, "r": 1, "key": K}, {"op": "rall", "r": 1}, {"op": "rcheck", "r": 1},
               {"op": "copy", "fl": fl, "by": "key", "checked": True, "key": K, "to": "out1"},
               {"op": "hard_link", "fl": fl, "by": "hash", "checked": True, "sri": sri, "to": "out2"},
               {"op": "open", "fl": fl, "w": 1, "key": K, "size": len(D) or None}, {"op": "wchunk", "w": 1, "data": D.hex(), "mode": "write_all"}, {"op": "commit", "w": 1},
               {"op": "open", "fl": fl, "w": 2, "key": K}, {"op": "wchunk", "w": 2, "data": D.hex(), "mode": "write_all"}, {"op": "drop", "w": 2},
               {"op": "insert", "fl": fl, "key": K, "sri": sri, "size": 3},
               {"op": "remove", "fl": fl, "key": K}, {"op": "write", "fl": fl, "key": K, "data": D.hex(), "algo": "sha1"},
               # an entry whose content is gone: read-only calls must stay read-only on it
               {"op": "remove_hash", "fl": fl, "sri": hashes.sri("sha1", D)},
               {"op": "read", "fl": fl, "key": K}, {"op": "metadata", "fl": fl, "key": K}, {"op": "ropen", "fl": fl, "r": 2, "key": K}, {"op": "list"},
               {"op": "copy", "fl": fl, "by": "key", "checked": True, "key": K, "to": "out3"},
               {"op": "remove_opts", "fl": fl, "key": K, "fully": True}, {"op": "remove_hash", "fl": fl, "sri": sri},
               {"op": "write_hash", "fl": fl, "data": D.hex(), "algo": "sha512"}, {"op": "clear", "fl": fl}, {"op": "list"}]
        # a cache driven through the raw index API only (nothing but index-v5 inside), alone in its parent directory
        ops_idx = [{"op": "insert", "fl": fl, "key": K, "sri": sri, "size": 3}, {"op": "metadata", "fl": fl, "key": K}, {"op": "list"},
                   {"op": "remove", "fl": fl, "key": K}, {"op": "remove_opts", "fl": fl, "key": K, "fully": True}, {"op": "list"}]
        ops = [{k: v for k, v in op.items() if v is not None} for op in ops]
        try:
          # a key with a long history (75 records in its bucket): read-only calls stay read-only whatever the bucket's length
          ops_long = []
          if key == keys[0]:
              for i in range(75):
                  ops_long.append({"op": "insert", "fl": fl, "key": K, "sri": sri, "size": i} if i % 9 != 8 else {"op": "remove", "fl": fl, "key": K})
              ops_long += [{"op": "write", "fl": fl, "key": K, "data": D.hex(), "algo": "sha256"}]
              ops_long += [{"op": "metadata", "fl": f2, "key": K} for f2 in fls] + [{"op": "read", "fl": f2, "key": K} for f2 in fls]
              ops_long += [{"op": "ropen", "fl": fl, "r": 1, "key": K}, {"op": "rall", "r": 1}, {"op": "exists", "fl": fl, "sri": sri}, {"op": "list"},
                           {"op": "copy", "fl": fl, "by": "key", "checked": True, "key": K, "to": "outL"}]
          # the cache's temp area is unusable (a regular file named tmp): writers fail, and create nothing anywhere else
          ops_blocked = []
          if key == keys[0] or absk:
              ops_blocked = [{"op": "write", "fl": f2, "key": K, "data": D.hex(), "algo": "sha256"} for f2 in fls] + \
                            [{"op": "write_hash", "fl": fl, "data": D.hex(), "algo": "sha1"},
                             {"op": "open", "fl": "sync", "w": 1, "key": K}, {"op": "wchunk", "w": 1, "data": D.hex(), "mode": "write_all"}, {"op": "commit", "w": 1},
                             {"op": "metadata", "fl": fl, "key": K}, {"op": "list"}]
          for variant, ops in (("full", ops), ("index-only", ops_idx)) + ((("long-history", ops_long),) if ops_long else ()) + ((("tmp-blocked", ops_blocked),) if ops_blocked else ()):
            shutil.rmtree(base, ignore_errors=True); os.makedirs(base)
            cache, ext, cwd = os.path.join(base, "solo", "c"), os.path.join(base, "e"), os.path.join(base, "cwd")
            for d in (cache, ext, cwd): os.makedirs(d)
            if variant == "tmp-blocked":
                with open(os.path.join(cache, "tmp"), "wb") as f: f.write(b"not a directory")
            os.makedirs(os.path.join(ext, "dir1"))
            if absk: os.makedirs(os.path.join(base, "escape"))
            before_out = sorted(os.listdir(cwd))
            tr = T.trace_ops(binf, cache, ext, ops, cwd=cwd)
            out["runs"] += 1
            rep = {"flavour": binf, "key": K, "ops": ops}
            if not os.path.isdir(os.path.join(base, "solo")):
                out["failures"].append({"concrete": True, "text": f"key {key!r} ({variant}): the directory that holds the cache directory was deleted", "replay": rep})
            bad = T.outside_mutations(tr["calls"], allow_ext=True)
            if bad:
                out["failures"].append({"concrete": True, "text": f"key {key!r}: a mutating system call names a path outside the cache: {T.brief(bad[0])[:160]}", "replay": rep})
            if sorted(os.listdir(cwd)) != before_out:
                out["failures"].append({"concrete": True, "text": f"key {key!r}: the working directory changed: {sorted(os.listdir(cwd))}", "replay": rep})
            for i, op in enumerate(ops):
                lo, hi = tr["spans"][i] if i < len(tr["spans"]) else (0, 0)
                calls = tr["calls"][lo:hi]
                muts = [c for c in calls if c["mutating"]]
                out["dist"][op["op"]] = out["dist"].get(op["op"], 0) + len(muts)
                if op["op"] in READONLY_OPS and muts:
                    out["failures"].append({"concrete": True, "text": f"key {key!r}: read-only call {op['op']} issued a mutating system call: {T.brief(muts[0])[:160]}", "replay": rep})
                for c in muts:
                    # extraction may write its destination in ext; nothing else may touch ext
                    for root, rel in c.get("paths") or []:
                        if root == "e" and op["op"] not in ("copy", "hard_link", "reflink"):
                            out["failures"].append({"concrete": True, "text": f"key {key!r}: {op['op']} touched the caller's directory: {T.brief(c)[:160]}", "replay": rep})
                        if root == "e" and op["op"] in ("copy", "hard_link", "reflink") and rel != op.get("to"):
                            out["failures"].append({"concrete": True, "text": f"key {key!r}: {op['op']} to {op.get('to')!r} touched another path of the caller's directory: {T.brief(c)[:160]}", "replay": rep})
                        if root == "c":
                            comps = rel.split("/") if rel else []
                            if any(x in ("", ".", "..") or "\x00" in x for x in comps):
                                out["failures"].append({"concrete": True, "text": f"key {key!r}: unsafe path component in {rel!r}", "replay": rep})
                            if comps and comps[0] not in ("tmp", "content-v2", "index-v5"):
                                out["failures"].append({"concrete": True, "text": f"key {key!r}: path outside the three cache areas: {rel!r}", "replay": rep})
                            if len(comps) > 1 and comps[0] == "index-v5" and not all(set(x) <= set("0123456789abcdef") for x in comps[1:]):
                                out["failures"].append({"concrete": True, "text": f"key {key!r}: non-hex component under index-v5: {rel!r}", "replay": rep})
                    # content files only ever appear by rename from tmp/
                    if c["name"] in ("openat", "open", "creat") and any(r == "c" and p.startswith("content-v2/") for r, p in c.get("paths") or []):
                        out["failures"].append({"concrete": True, "text": f"key {key!r}: a content file was opened for writing in place: {T.brief(c)[:160]}", "replay": rep})
            T.cleanup(tr)
        finally:
            shutil.rmtree(base, ignore_errors=True)
    return out

def suite_chdir(binf, tier, rng):
    """C15 with a relative cache path: the process works on ./c in one directory, changes its working directory, and works on
    ./c there (another cache).  Everything the second cache's calls do stays inside the second cache: the first cache's tree
    is byte-for-byte unchanged while a writer of the second is open, after its commit, and after removals."""
    import tempfile, shutil
    out = {"runs": 0, "skipped": 0, "failures": [], "dist": {}}
    fls = ["sync"] if binf == "sync" else ["sync", "async"]
    def snap(root):
        items = []
        for d, dirs, files in os.walk(root):
            for n in sorted(dirs): items.append((os.path.relpath(os.path.join(d, n), root), "dir"))
            for n in sorted(files):
                p = os.path.join(d, n)
                with open(p, "rb") as f: items.append((os.path.relpath(p, root), hashlib.sha256(f.read()).hexdigest()))
        return sorted(items)
    for fl in fls:
        base = tempfile.mkdtemp(prefix="cd", dir=T.SCRATCH if os.path.isdir(T.SCRATCH) else None)
        rep = {"flavour": binf, "scenario": f"{fl}: relative cache path 'c', chdir between two caches"}
        try:
            first, second, ext = os.path.join(base, "first"), os.path.join(base, "second"), os.path.join(base, "e")
            for d in (first, second, ext): os.makedirs(d)
            ip = ImplProc(binf, "c", ext, cwd=first)
            try:
                K1, K2 = kx("one"), kx("two")
                r = ip.op({"op": "write", "fl": fl, "key": K1, "data": b"in the first cache".hex()})
                s0 = snap(os.path.join(first, "c"))
                ip.op({"op": "chdir", "to": second})
                steps_ = [("an open writer of the second cache", [{"op": "open", "fl": fl, "w": 2, "key": K2}, {"op": "wchunk", "w": 2, "data": b"in the second cache".hex(), "mode": "write_all"}]),
                          ("its commit", [{"op": "commit", "w": 2}]),
                          ("a one-shot write and a read", [{"op": "write", "fl": fl, "key": kx("three"), "data": b"3".hex()}, {"op": "read", "fl": fl, "key": K2}]),
                          ("a full removal and a clear", [{"op": "remove_opts", "fl": fl, "key": K2, "fully": True}, {"op": "clear", "fl": fl}])]
                for what, ops in steps_:
                    rs = [ip.op(o) for o in ops]
                    out["runs"] += 1
                    s1 = snap(os.path.join(first, "c"))
                    if s1 != s0:
                        diff = sorted(set(s1) ^ set(s0))[:3]
                        out["failures"].append({"concrete": True, "text": f"{rep['scenario']}: {what} changed the FIRST cache: {diff}", "replay": dict(rep, ops=ops)}); break
                    if what == "a one-shot write and a read" and (rs[-1].get("r") != "ok" or rs[-1].get("v") != b"in the second cache".hex()):
                        out["failures"].append({"concrete": True, "text": f"{rep['scenario']}: the entry written through ./c after the chdir does not read back: {str(rs[-1])[:120]}", "replay": dict(rep, ops=ops)}); break
                ip.op({"op": "chdir", "to": first})
                rd = ip.op({"op": "read", "fl": fl, "key": K1})
                if rd.get("r") != "ok" or rd.get("v") != b"in the first cache".hex():
                    out["failures"].append({"concrete": True, "text": f"{rep['scenario']}: back in the first directory its entry reads {str(rd)[:120]}", "replay": rep})
            finally:
                ip.close()
        finally:
            shutil.rmtree(base, ignore_errors=True)
    return out

# ------------------------------------------------------------------------------------------------ C07
def conc_ops(fl):
    """the operations of C07's quantifier, as (name, op, mutates) over keys k / k2 and contents A / B"""
    K, K2 = kx("k"), kx("k2")
    A, B = b"content A", b"content B!"
    sA = hashes.sri("sha256", A)
    return {
        "write k A": {"op": "write", "fl": fl, "key": K, "data": A.hex(), "algo": "sha256"},
        "write k B": {"op": "write", "fl": fl, "key": K, "data": B.hex(), "algo": "sha256"},
        "write k2 A": {"op": "write", "fl": fl, "key": K2, "data": A.hex(), "algo": "sha256"},
        "write_hash A": {"op": "write_hash", "fl": fl, "data": A.hex(), "algo": "sha256"},
        "read k": {"op": "read", "fl": fl, "key": K},
        "read_hash A": {"op": "read_hash", "fl": fl, "sri": sA},
        "metadata k": {"op": "metadata", "fl": fl, "key": K},
        "remove k": {"op": "remove", "fl": fl, "key": K},
        "remove_hash A": {"op": "remove_hash", "fl": fl, "sri": sA},
        "exists A": {"op": "exists", "fl": fl, "sri": sA},
        "list": {"op": "list"},
        # a streamed writer whose commit is rejected (declared size wrong): its content is published, no index record
        # several writers / a remover of one key, run while a reader is parked between its index step and its content step
        "write k B; remove k; write k C": [{"op": "write", "fl": fl, "key": K, "data": B.hex(), "algo": "sha256"},
                                           {"op": "remove", "fl": fl, "key": K},
                                           {"op": "write", "fl": fl, "key": K, "data": b"content C?".hex(), "algo": "sha1"}],
        "rejected stream k2 A": [{"op": "open", "fl": fl, "w": 1, "key": K2, "size": 99, "algo": "sha256"},
                                 {"op": "wchunk", "w": 1, "data": A.hex(), "mode": "write_all"}, {"op": "commit", "w": 1}],
    }

def _as_list(x):
    return x if isinstance(x, list) else [x]

def _canon_obs(op, r):
    if isinstance(op, list):
        op = op[-1]
    c = O.canon_impl(op, r) if r is not None else ("dead",)
    if c[:2] == ("ok", "meta"):
        return strip_time(c)
    if c[:2] == ("ok", "list"):
        return ("ok", "list", tuple(sorted((i[0], json.dumps(dict(i[1], time=0), sort_keys=True) if i[0] == "meta" else str(i[1])) for i in c[2])))
    if c[0] == "err":
        return c[:2]
    return c

def _canon_tree(cache, ext):
    """final cache state modulo timestamps: content files, and per bucket the decoded records with the time masked"""
    out = []
    for e in O.dump_real(cache, ext):
        if e[0].startswith("c:tmp/"):
            out.append(("c:tmp/*",) + tuple(e[1:])); continue
        if e[0].startswith("c:index-v5/") and e[1] == "file":
            recs = []
            for line in bytes.fromhex(e[2]).split(b"\n"):
                parts = line.split(b"\t")
                if len(parts) == 2:
                    try:
                        j = json.loads(parts[1]); j["time"] = 0
                        recs.append(json.dumps(j, sort_keys=True))
                    except Exception:
                        recs.append(line.hex())
                elif line:
                    recs.append(line.hex())
            out.append((e[0], "bucket", tuple(recs)))
        else:
            out.append(tuple(e))
    return sorted(out, key=str)

def _bucket_multiset(tree):
    """the same with the order of records inside a bucket forgotten (used only to explain a difference)"""
    return [(e[0], e[1], tuple(sorted(e[2]))) if e[1] == "bucket" else e for e in tree]

def suite_conc(binf, tier, rng):
    """forced schedules on the real binaries: operation A is parked (strace delay) on entry to its i-th system call that
    names a cache path while operation B — a second process on the same directory — runs to completion; then A resumes.
    Results of both and the final tree must be those of A;B or of B;A run serially (direct oracle on the implementation)."""
    import tempfile, shutil, threading
    from concurrent.futures import ThreadPoolExecutor
    out = {"runs": 0, "skipped": 0, "failures": [], "dist": {}, "serial_AB": 0, "serial_BA": 0}
    fl = "sync" if binf == "sync" else "async"
    # premise of the model's atomic Append step: one record = ONE write(2) on the O_APPEND descriptor, whatever its size
    for nraw in (10, 300000, 921600):
        base = tempfile.mkdtemp(prefix="ap", dir=T.SCRATCH)
        try:
            c, e = os.path.join(base, "c"), os.path.join(base, "e")
            os.makedirs(c); os.makedirs(e)
            op = {"op": "insert", "fl": fl, "key": kx("big"), "sri": hashes.sri("sha256", b"x"), "raw": (bytes(range(256)) * (nraw // 256 + 1))[:nraw].hex(), "time": "5"}
            tr = T.trace_ops(binf, c, e, [op], warmup=T.default_warmup(binf))
            lo, hi = tr["spans"][0]
            ws = [x for x in tr["calls"][lo:hi] if x["name"] in ("write", "pwrite64", "writev") and (x.get("fdpath") or ("", ""))[1].startswith("index-v5/")]
            T.cleanup(tr)
            out["runs"] += 1
            out["dist"][f"append syscalls for a {nraw}-byte raw_metadata record"] = len(ws)
            if len(ws) != 1 or "O_APPEND" not in "".join(str(x.get("flags") or "") for x in tr["calls"][lo:hi] if x["name"] in ("openat", "open")):
                out["failures"].append({"concrete": True, "text": f"an index record ({nraw} bytes of raw metadata) was appended by {len(ws)} write calls {[x.get('count') for x in ws]} instead of one O_APPEND write: concurrent appenders can splice it",
                                        "replay": {"flavour": binf, "op": {k: (v if k != 'raw' else f'{nraw} bytes') for k, v in op.items()}, "writes": [x.get("count") for x in ws]}})
        finally:
            shutil.rmtree(base, ignore_errors=True)
    ops = conc_ops(fl)
    K, K2 = kx("k"), kx("k2")
    A = b"content A"
    warm = [{"op": "write", "fl": "sync", "key": K, "data": A.hex(), "algo": "sha256"}]
    pairs = [("write k A", "write k B"), ("write k B", "write k2 A"), ("write k A", "write k2 A"), ("write k B", "remove k"),
             ("write k A", "remove_hash A"), ("write k2 A", "remove_hash A"), ("write k B", "read k"), ("write k B", "metadata k"),
             ("write k B", "list"), ("list", "write k B"), ("remove k", "write k B"), ("remove_hash A", "write k2 A"),
             ("write_hash A", "remove_hash A"), ("remove k", "metadata k"), ("write k A", "read_hash A"), ("write_hash A", "exists A"),
             ("read k", "write k B"), ("read k", "write k B; remove k; write k C"),
             ("rejected stream k2 A", "write k A"), ("write k A", "rejected stream k2 A")]
    if tier != "quick":
        names = list(ops)
        mut = lambda n: isinstance(ops[n], list) or ops[n]["op"] in ("write", "write_hash", "remove", "remove_hash")
        # a list of several whole operations is one process doing them one after the other: it may only be the side that
        # runs to completion (B); parked in the middle (A) it is not ONE operation and "A;B or B;A" is not its specification
        seq_only_b = {"write k B; remove k; write k C"}
        pairs += [(a, b) for a in names for b in names if (a, b) not in pairs and (mut(a) or mut(b)) and a not in seq_only_b]
    states = [("cold", [])] if tier == "quick" else [("cold", []), ("warm", warm)]
    if tier == "quick":
        states.append(("warm", warm)); pairs_for = {"cold": pairs[:6] + [("write k B", "list")] + pairs[-2:], "warm": pairs[:-2]}
    else:
        pairs_for = {"cold": pairs, "warm": pairs}
    def serial(setup, first, second):
        base = tempfile.mkdtemp(prefix="ser", dir=T.SCRATCH)
        try:
            c, e = os.path.join(base, "c"), os.path.join(base, "e")
            os.makedirs(c); os.makedirs(e)
            make_state_fn(binf, setup)(c, e)
            ip = ImplProc(binf, c, e); r1 = [ip.op(o) for o in _as_list(first)][-1]; ip.close()
            ip = ImplProc(binf, c, e); r2 = [ip.op(o) for o in _as_list(second)][-1]; ip.close()
            return _canon_obs(first, r1), _canon_obs(second, r2), _canon_tree(c, e)
        finally:
            shutil.rmtree(base, ignore_errors=True)
    jobs = []
    for sname, setup in states:
        for an, bn in pairs_for[sname]:
            a, b = ops[an], ops[bn]
            rAB = serial(setup, a, b)                       # (obs a, obs b, tree)
            rBA = serial(setup, b, a)
            okset = [(rAB[0], rAB[1], rAB[2]), (rBA[1], rBA[0], rBA[2])]
            # the schedule points of A: its system calls that name a cache path, by (name, per-thread ordinal)
            base = tempfile.mkdtemp(prefix="cb", dir=T.SCRATCH)
            try:
                c, e = os.path.join(base, "c"), os.path.join(base, "e")
                os.makedirs(c); os.makedirs(e)
                make_state_fn(binf, setup)(c, e)
                tr = T.trace_ops(binf, c, e, _as_list(a), want_reads=True, warmup=T.default_warmup(binf))
                lo, hi = tr["spans"][-1]
                pts = [(x["name"], x["thread_ord"], x.get("role"), T.brief(x)[:70]) for x in tr["calls"][lo:hi]
                       if any(r == "c" for r, _ in (x.get("paths") or [])) or (x.get("fdpath") or ("",))[0] == "c"]
                roles = tr["info"]["roles"]; attached = tr["info"]["attached"]
                T.cleanup(tr)
            finally:
                shutil.rmtree(base, ignore_errors=True)
            if tier == "quick" and len(pts) > 14:
                pts = pts[:4] + rng.sample(pts[4:-4], 6) + pts[-4:]
            for pt in pts:
                jobs.append((sname, setup, an, bn, a, b, pt, okset))
    def one(job):
        sname, setup, an, bn, a, b, (name, ordn, role, desc), okset = job
        base = tempfile.mkdtemp(prefix="cs", dir=T.SCRATCH)
        try:
            c, e = os.path.join(base, "c"), os.path.join(base, "e")
            os.makedirs(c); os.makedirs(e)
            make_state_fn(binf, setup)(c, e)
            resA = {}
            def runA():
                try:
                    tr = T.trace_ops(binf, c, e, _as_list(a), inject=f"{name}:delay_enter=900000:when={ordn}", warmup=T.default_warmup(binf),
                                     only=role if role in ("cch-worker", "blocking-1", "tokio-rt-worker") else None, timeout=60)
                    resA["r"] = tr["results"][-1]; resA["inj"] = len(tr["info"].get("injected_lines") or [])
                    T.cleanup(tr)
                except Exception as ex:
                    resA["err"] = repr(ex)[:200]
            th = threading.Thread(target=runA); th.start()
            time.sleep(0.45)                                 # A is attached, started and parked at its delay point
            ip = ImplProc(binf, c, e); rb = [ip.op(o) for o in _as_list(b)][-1]; ip.close()
            th.join()
            if "err" in resA:
                return ("skip", job, resA["err"])
            got = (_canon_obs(a, resA["r"]), _canon_obs(b, rb), _canon_tree(c, e))
            return ("done", job, got)
        finally:
            shutil.rmtree(base, ignore_errors=True)
    with ThreadPoolExecutor(max_workers=8) as ex:
        for status, job, got in ex.map(one, jobs):
            sname, setup, an, bn, a, b, pt, okset = job
            out["runs"] += 1
            if status == "skip":
                out["skipped"] += 1; continue
            key = f"{an} || {bn}"
            out["dist"][key] = out["dist"].get(key, 0) + 1
            if got == okset[0]:
                out["serial_AB"] += 1
            elif got == okset[1]:
                out["serial_BA"] += 1
            else:
                # results and content must match a serial order; inside one bucket the two records may be in either order
                # only if that order is itself the order of one serial run (already covered above): report
                why = "results" if (got[0], got[1]) not in [(o[0], o[1]) for o in okset] else "final state"
                out["failures"].append({"concrete": True,
                    "text": f"{sname} cache, A = {an} parked before {pt[3]} while B = {bn} ran: the {why} match no serial order "
                            f"(A: {str(got[0])[:100]}, B: {str(got[1])[:100]})",
                    "replay": {"flavour": binf, "setup": setup, "A": a, "B": b, "A_parked_before": pt[:2] + (pt[3],), "observed": [str(got[0])[:300], str(got[1])[:300], got[2]],
                               "serial_AB": [str(okset[0][0])[:300], str(okset[0][1])[:300], okset[0][2]], "serial_BA": [str(okset[1][0])[:300], str(okset[1][1])[:300], okset[1][2]]}})
    return out
