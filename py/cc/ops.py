"""Shared op vocabulary: translation of one op (a dict in the harness's JSON format, plus python-side
damage ops) to the model's token line, canonical forms of results on both sides, damage application and
tree dumps of the real directory."""
import hashlib, json, os, shutil

PSEUDO_BASE = 1 << 120

def hx(b: bytes) -> str:
    return "x" + b.hex()

def opt(v, f=lambda x: x):
    return "-" if v is None else f(v)

def _fl(op):
    return op.get("fl", "sync")

def _meta_tok(op):
    if "meta" not in op:
        return "-"
    return hx(json.dumps(op["meta"], separators=(",", ":"), ensure_ascii=False).encode())

def _wopts(op):
    return [opt(op.get("algo")), opt(op.get("sri"), lambda s: hx(s.encode())), opt(op.get("size"), str),
            opt(op.get("time"), str), _meta_tok(op), opt(op.get("raw"), lambda h: "x" + h)]

def model_line(op: dict):
    """the token line for the model driver, or None if the op has no model counterpart"""
    o = op["op"]
    if o == "write":
        return " ".join(["write", _fl(op), op.get("algo", "sha256"), "x" + op["key"], "x" + op["data"]])
    if o == "write_hash":
        return " ".join(["write_hash", _fl(op), op.get("algo", "sha256"), "x" + op["data"]])
    if o == "open":
        return " ".join(["open", _fl(op), str(op["w"]), opt(op.get("key"), lambda k: "x" + k)] + _wopts(op))
    if o == "wchunk":
        return " ".join(["wwrite" if op.get("mode") == "write" else "wchunk", str(op["w"]), "x" + op["data"]])
    if o == "wabandon":
        return " ".join(["wabandon", str(op["w"]), "x" + op["data"]])
    if o in ("commit", "drop"):
        return f"{o} {op['w']}"
    if o == "insert":
        return " ".join(["insert", _fl(op), "x" + op["key"]] + _wopts(op))
    if o in ("delete", "remove", "remove_fully", "read"):
        return f"{o} {_fl(op)} x{op['key']}"
    if o in ("find", "metadata"):
        return f"find {_fl(op)} x{op['key']}"
    if o == "remove_opts":
        return f"{'remove_fully' if op.get('fully') else 'remove'} {_fl(op)} x{op['key']}"
    if o in ("read_hash", "exists", "remove_hash"):
        return f"{o} {_fl(op)} {hx(op['sri'].encode())}"
    if o == "ropen":
        return f"ropen {_fl(op)} {op['r']} x{op['key']}"
    if o == "ropen_hash":
        return f"ropen_hash {_fl(op)} {op['r']} {hx(op['sri'].encode())}"
    if o == "rchunk":
        return f"rchunk {op['r']} {op['n']}"
    if o in ("rall", "rcheck", "rdrop"):
        return f"{o} {op['r']}"
    if o in ("copy", "hard_link", "reflink"):
        by = op.get("by", "key")
        v = "x" + op["key"] if by == "key" else hx(op["sri"].encode())
        return " ".join(["extract", o, _fl(op), by, "t" if op.get("checked", True) else "f", v, op["to"]])
    if o == "link_to":
        return " ".join(["link_to", _fl(op), opt(op.get("key"), lambda k: "x" + k), op["target"]])
    if o == "lopen":
        return " ".join(["lopen", _fl(op), str(op["l"]), "t" if op.get("plain") else "f", opt(op.get("key"), lambda k: "x" + k)]
                        + _wopts(op) + [op["target"]])
    if o == "lchunk":
        return f"lchunk {op['l']} {op['n']}"
    if o in ("lcommit", "ldrop"):
        return f"{o} {op['l']}"
    if o == "clear":
        return f"clear {_fl(op)}"
    if o == "list":
        return "list"
    if o == "damage":
        k = op["kind"]
        if k in ("set", "rot"):
            return f"dset {op['loc']} x{op['data']}"
        if k == "del":
            return f"ddel {op['loc']}"
        if k == "mkdir":
            return f"dmkdir {op['loc']}"
        if k == "symlink":
            return f"dsymlink {op['loc']} {op['target']}"
    return None

# ---------------------------------------------------------------- canonical results
def _meta_from_model(toks):
    key, sri, time, size, meta, raw, flag = toks
    return {"key": key[1:], "sri": bytes.fromhex(sri[1:]).decode("utf-8", "replace"), "time": int(time),
            "size": int(size), "meta": meta[1:], "raw": None if raw == "-" else raw[1:], "modelled": flag == "m"}

def canon_model(first: str, extra):
    t = first.split(" ")
    if t[0] == "ok":
        kind = t[1]
        if kind == "unit":
            return ("ok", "unit")
        if kind == "bytes":
            return ("ok", "bytes", t[2][1:])
        if kind == "sri":
            return ("ok", "sri", bytes.fromhex(t[2][1:]).decode("utf-8", "replace"))
        if kind == "meta":
            return ("ok", "meta", None if t[2] == "-" else _meta_from_model(t[2:]))
        if kind == "num":
            return ("ok", "num", int(t[2]))
        if kind == "bool":
            return ("ok", "bool", t[2] == "t")
        if kind == "algo":
            return ("ok", "algo", t[2])
        if kind == "list":
            items = []
            for l in extra:
                u = l.split(" ")
                if u[1] == "meta":
                    items.append(("meta", _meta_from_model(u[2:])))
                else:
                    items.append(("err", u[2]))
            return ("ok", "list", items)
    if t[0] == "err":
        if t[1] == "SizeMismatch":
            return ("err", "SizeMismatch", int(t[2]), int(t[3]))
        return ("err", t[1])
    return (t[0],)          # panic hang stuck badarg parse-error

def _meta_from_impl(v):
    return {"key": v["key"], "sri": v["sri"], "time": int(v["time"]), "size": int(v["size"]),
            "meta": v["meta"], "raw": v["raw"], "modelled": True}

def canon_impl(op: dict, r: dict):
    k = r.get("r")
    if k == "ok":
        v = r.get("v")
        o = op["op"]
        if o in ("write", "write_hash", "commit", "insert", "link_to", "lcommit"):
            return ("ok", "sri", v)
        if o in ("read", "read_hash", "rchunk", "rall", "lchunk"):
            return ("ok", "bytes", v)
        if o in ("find", "metadata"):
            return ("ok", "meta", None if v is None else _meta_from_impl(v))
        if o == "copy":
            return ("ok", "num", v)
        if o == "wchunk":
            return ("ok", "num", v if op.get("mode") == "write" else len(op["data"]) // 2)
        if o == "wabandon":
            return ("ok", "unit") if v is None else ("ok", "num", v)
        if o == "exists":
            return ("ok", "bool", v)
        if o == "rcheck":
            return ("ok", "algo", v)
        if o == "list":
            return ("ok", "list", [("err", i["err"]) if "err" in i else ("meta", _meta_from_impl(i)) for i in v])
        return ("ok", "unit")
    if k == "err":
        if r["e"] == "SizeMismatch":
            return ("err", "SizeMismatch", r["a"][0], r["a"][1])
        return ("err", r["e"])
    return (k,)

def _time_ok(mt, it, times):
    if PSEUDO_BASE <= mt < PSEUDO_BASE + (1 << 40):
        w = times.get(mt - PSEUDO_BASE)
        return w is not None and w[0] <= it <= w[1]
    return mt == it

def meta_equal(mm, im, times):
    """model meta vs implementation meta; returns None if equal else a reason"""
    if mm is None or im is None:
        return None if mm is im else "presence"
    for f in ("key", "sri", "size", "raw"):
        if mm[f] != im[f]:
            return f
    if not mm["modelled"]:
        return None
    if mm["meta"] != im["meta"]:
        return "meta"
    if not _time_ok(mm["time"], im["time"], times):
        return "time"
    return None

def results_equal(cm, ci, times):
    """None if the canonical model result and implementation result agree, else a short reason"""
    if cm[0] != ci[0]:
        return f"class {cm[0]} vs {ci[0]}"
    if cm[0] != "ok":
        return None if cm == ci else f"{cm} vs {ci}"
    if cm[1] != ci[1]:
        return f"kind {cm[1]} vs {ci[1]}"
    if cm[1] == "meta":
        r = meta_equal(cm[2], ci[2], times)
        return None if r is None else "meta." + r
    if cm[1] == "list":
        a = sorted(cm[2], key=lambda i: (i[0], i[1]["key"] if i[0] == "meta" else i[1]))
        b = sorted(ci[2], key=lambda i: (i[0], i[1]["key"] if i[0] == "meta" else i[1]))
        if len(a) != len(b):
            return f"list length {len(a)} vs {len(b)}"
        for x, y in zip(a, b):
            if x[0] != y[0]:
                return "list item kind"
            if x[0] == "err":
                if x[1] != y[1]:
                    return "list err class"
            else:
                r = meta_equal(x[1], y[1], times)
                if r is not None:
                    return "list item " + r
        return None
    return None if cm == ci else f"{str(cm)[:200]} vs {str(ci)[:200]}"

# ---------------------------------------------------------------- the real directory
def loc_path(loc: str, cache: str, ext: str) -> str:
    if loc.startswith("c:"):
        return os.path.join(cache, loc[2:]) if loc[2:] else cache
    if loc.startswith("e:"):
        return os.path.join(ext, loc[2:])
    raise ValueError(loc)

def _rm_any(p):
    if os.path.islink(p) or os.path.isfile(p):
        os.unlink(p)
    elif os.path.isdir(p):
        shutil.rmtree(p)

def apply_damage(op: dict, cache: str, ext: str):
    p = loc_path(op["loc"], cache, ext)
    k = op["kind"]
    if k == "set":
        # replace the inode (write a sibling, rename over): an open reader keeps the old file
        _rm_any(p) if os.path.isdir(p) and not os.path.islink(p) else None
        tmp = p + ".dmg~"
        with open(tmp, "wb") as f:
            f.write(bytes.fromhex(op["data"]))
        os.replace(tmp, p)
    elif k == "rot":
        # bit rot: the same inode, the same length, the same timestamps — only the bytes change
        st = os.stat(p)
        data = bytes.fromhex(op["data"])
        assert len(data) == st.st_size, "rot keeps the length"
        os.chmod(p, st.st_mode | 0o200)
        with open(p, "r+b") as f:
            f.write(data)
        os.chmod(p, st.st_mode)
        os.utime(p, ns=(st.st_atime_ns, st.st_mtime_ns))
    elif k == "del":
        _rm_any(p)
    elif k == "mkdir":
        _rm_any(p)
        os.makedirs(p)
    elif k == "symlink":
        _rm_any(p)
        t = op["target"]
        os.symlink(os.path.join(ext, t[2:]) if t.startswith("a:") else bytes.fromhex(t[2:]).decode(), p)

def _file_entry(loc, data: bytes):
    if len(data) <= 512 or loc.startswith("c:index-v5/"):
        return (loc, "file", data.hex())
    return (loc, "filehash", len(data), hashlib.sha256(data).hexdigest())

def dump_real(cache: str, ext: str):
    out = []
    for prefix, root in (("c:", cache), ("e:", ext)):
        for d, dirs, files in os.walk(root):
            rel = os.path.relpath(d, root)
            rel = "" if rel == "." else rel
            for n in list(dirs):
                p = os.path.join(d, n)
                loc = prefix + (rel + "/" if rel else "") + n
                if os.path.islink(p):
                    dirs.remove(n)
                    out.append(_link_entry(loc, p, ext))
                elif prefix == "c:":
                    out.append((loc, "dir"))
            for n in files:
                p = os.path.join(d, n)
                loc = prefix + (rel + "/" if rel else "") + n
                if os.path.islink(p):
                    out.append(_link_entry(loc, p, ext))
                else:
                    with open(p, "rb") as f:
                        out.append(_file_entry(loc, f.read()))
    return out

def _link_entry(loc, p, ext):
    t = os.readlink(p)
    if os.path.isabs(t) and os.path.dirname(t) == ext.rstrip("/"):
        return (loc, "symlink", "a:" + os.path.basename(t))
    return (loc, "symlink", "d:" + t.encode().hex())

def parse_model_dump(lines):
    out = []
    for l in lines:
        t = l.split(" ")
        loc = t[1]
        if t[2] == "dir":
            if loc.startswith("c:") and loc != "c:":
                out.append((loc, "dir"))
        elif t[2] == "file":
            out.append((loc, "file", t[3][1:]))
        elif t[2] == "filehash":
            out.append((loc, "filehash", int(t[3]), t[4][1:]))
        elif t[2] == "symlink":
            out.append((loc, "symlink", t[3]))
    return out

def _canon_tmp(entries):
    """temp files have unpredictable names: keep only (kind, content), as a sorted multiset"""
    keep, tmp = [], []
    for e in entries:
        if e[0].startswith("c:tmp/"):
            tmp.append(("c:tmp/*",) + tuple(e[1:]))
        else:
            keep.append(tuple(e))
    return sorted(keep) + sorted(tmp)

def _bucket_equal(mh, ih, times):
    """bucket bytes modulo default timestamps: the model's pseudo time of op i must correspond to an
    implementation time inside op i's wall-clock window; everything else byte-identical"""
    if mh == ih:
        return True
    ms, is_ = bytes.fromhex(mh).split(b"\n"), bytes.fromhex(ih).split(b"\n")
    if len(ms) != len(is_):
        return False
    for a, b in zip(ms, is_):
        if a == b:
            continue
        pa, pb = a.split(b"\t"), b.split(b"\t")
        if len(pa) != 2 or len(pb) != 2:
            return False
        if hashlib.sha256(pa[1]).hexdigest().encode() != pa[0] or hashlib.sha256(pb[1]).hexdigest().encode() != pb[0]:
            return False
        try:
            ja, jb = json.loads(pa[1]), json.loads(pb[1])
        except Exception:
            return False
        ta, tb = ja.pop("time", None), jb.pop("time", None)
        if json.dumps(ja) != json.dumps(jb) or list(ja.keys()) != list(jb.keys()):
            return False
        if not (isinstance(ta, int) and isinstance(tb, int) and _time_ok(ta, tb, times)):
            return False
        # the texts must also agree byte for byte once the digits of the time are masked
        if pa[1].replace(str(ta).encode(), b"@", 1) != pb[1].replace(str(tb).encode(), b"@", 1):
            return False
    return True

def trees_equal(model_entries, impl_entries, times):
    a, b = _canon_tmp(model_entries), _canon_tmp(impl_entries)
    if len(a) != len(b):
        sa, sb = {e[0] for e in a}, {e[0] for e in b}
        return f"entry sets differ: only model {sorted(sa - sb)[:5]} only impl {sorted(sb - sa)[:5]}"
    for x, y in zip(a, b):
        if x == y:
            continue
        if x[0] == y[0] and x[1] == y[1] == "file" and x[0].startswith("c:index-v5/") and _bucket_equal(x[2], y[2], times):
            continue
        return f"node differs: model {str(x)[:160]} impl {str(y)[:160]}"
    return None
