"""System-call observation and perturbation of the `cch` harness through strace(1).

Public API
----------
    class Call(dict)
    trace_ops(flavour, cache, ext, ops, env=None, timeout=120, link_to=False, want_reads=False,
              inject=None, pin=None, cwd=None, logdir=None, warmup=None, only=None) -> dict
    kill_sweep(flavour, make_state, ops, target, select=None, after=None, env=None, jobs=8, torn=None,
               torn_select=None, retries=3, timeout=120, link_to=False, info=None, warmup="auto",
               isolate=True) -> list[dict]
    fault_sweep(flavour, make_state, ops, target, errnos=("EIO","ENOSPC","EACCES","EMFILE"), select=None,
                after=None, env=None, jobs=8, retries=3, timeout=120, link_to=False, info=None, warmup="auto",
                isolate=True) -> list[dict]
    outside_mutations(calls, allow_ext=True) -> list[Call]
    torn_lengths(n, torn="all") -> list[int]
    signature(call) -> tuple          run-independent identity of a call (temp names replaced by a placeholder)
    brief(call) -> str                one-line rendering
    cleanup(result_or_path)           remove the strace log directory of a trace_ops result
    dump_after(cache, ext, *_)        ready-made `after` callback: ops.dump_real
    default_warmup(flavour)           the warm-up ops used by the sweeps (warmup="auto")

Call keys: idx tid role name args ret errno paths fdpath flags data buf count offset mutating maycreate maytruncate
thread_ord injected line retpath srcpath target cmd shared_write rawpaths (see _Parser.build).

How a run is traced
-------------------
The harness is started *untraced* (Popen with explicit cwd/env), one `{"op":"ping"}` (plus the optional `warmup`
ops) is exchanged so that the process is quiescent (main thread blocked in read(0), worker thread parked), and
then TWO strace instances are attached:

  * a "shield" `strace -e trace=none -o /dev/null -p <main tid> [-p ...]` (no -f): its only purpose is to own
    threads, so that the second strace can not attach to them.  The main thread only does protocol I/O
    (`read(0)`, `write(1)`); if it were traced by the injecting strace, `inject=read:when=1` would hit the read
    of the op line instead of the first file read of the operation (strace counts `when=` per tracee and per
    syscall, and applies the inject expression to every tracee).  With `only=<role>` every thread except the
    named one is shielded (roles = thread names: cch-worker, blocking-1 (async-std), tokio-rt-worker, async-io..).
  * the real tracer `strace -f -y -xx -s 4000000 -o <log> -e trace=<set> [-e inject=...] [-P path] -p <tid>`
    which (because of -f) attaches to every not shielded thread of the process and follows threads created later.

Attaching after start-up also means that every per-thread syscall counter of strace starts at zero at a well
defined program point (no dynamic-loader noise), which is what makes `when=N` reproducible between runs.

Ops are delimited by log *offsets*: strace's -o stream is line buffered and a tracee is only resumed after its
line was written, so when the answer of op i has been received every call issued synchronously by op i is in
the file.  span i = calls whose first log line starts in [size at send i, size at send i+1).  The protocol I/O
of the main thread is never in the log (shielded).

Injection targeting (sweeps)
----------------------------
`thread_ord` of a Call = 1-based ordinal among *all* logged calls of the same syscall name by the same tid
(counted over everything strace logged, also the calls that are not reported as Calls) = strace's `when=` counter.

  isolation  the injecting strace is attached to the single thread that issued the call in the fault-free run
             (if that thread existed at attach time; the sweeps run a read-only warm-up look-up first so that the
             async runtimes have created their threads), every other thread is shielded: no other thread can be hit.
  plain      `-e inject=NAME:...:when=<thread_ord>`.
  pinned     additionally `-P <absolute path of the target file>`: strace then only traces (and only counts!) calls
             that name exactly this path, so the ordinal is "n-th NAME on this path by this thread" and is immune
             to unrelated calls of the same name by the same thread (async-std's blocking thread writes to an
             eventfd between file writes, a racy number of times).  Only possible when the path has no random temp
             component.  The log of a pinned run only contains calls on that path.
Attempts alternate plain / pinned; after a failed plain attempt the ordinal is re-estimated from the failed run's
log (_adapt).  Every injected run is verified from its log (_verify) before it is reported "ok".
"""
import bisect, json, os, re, select as _select, shutil, signal, subprocess, tempfile, time
from concurrent.futures import ThreadPoolExecutor

IMPL = os.environ.get("VERIF_IMPL_DIR", "/verif/.build")
EXTRA_INJECT = []        # extra `-e inject=` expressions applied to every traced run (fault-free baseline included)
SCRATCH = os.environ.get("CC_TRACE_SCRATCH", "/verif/.build/scratch-trace")
STRACE = os.environ.get("CC_STRACE", "strace")
STRSIZE = 4000000

class TraceError(RuntimeError):
    pass

class Call(dict):
    """One traced system call.  Keys: idx tid name args ret errno paths fdpath flags data buf mutating maycreate
    thread_ord injected line (byte offset of its first log line) ..."""
    __getattr__ = dict.get
    def __repr__(self):
        return "Call(%s)" % brief(self)

# ------------------------------------------------------------------------------------------------------------
# syscall table

# name -> description of the arguments
#   p: indices of plain path arguments           at: (dirfd index, path index) pairs
#   fd: index of the descriptor the call acts on  fl: index of the open flags   data / iov: buffer argument
_T = {
    "mkdir": dict(p=[0]), "mkdirat": dict(at=[(0, 1)]),
    "open": dict(p=[0], fl=1), "creat": dict(p=[0]), "openat": dict(at=[(0, 1)], fl=2), "openat2": dict(at=[(0, 1)], fl=2),
    "read": dict(fd=0, data=1), "pread64": dict(fd=0, data=1, off=3),
    "readv": dict(fd=0, iov=1), "preadv": dict(fd=0, iov=1, off=3), "preadv2": dict(fd=0, iov=1, off=3),
    "write": dict(fd=0, data=1), "pwrite64": dict(fd=0, data=1, off=3),
    "writev": dict(fd=0, iov=1), "pwritev": dict(fd=0, iov=1, off=3), "pwritev2": dict(fd=0, iov=1, off=3),
    "rename": dict(p=[0, 1]), "renameat": dict(at=[(0, 1), (2, 3)]), "renameat2": dict(at=[(0, 1), (2, 3)]),
    "unlink": dict(p=[0]), "rmdir": dict(p=[0]), "unlinkat": dict(at=[(0, 1)]),
    "link": dict(p=[0, 1]), "linkat": dict(at=[(0, 1), (2, 3)]),
    "symlink": dict(target=0, p=[1]), "symlinkat": dict(target=0, at=[(1, 2)]),
    "fallocate": dict(fd=0), "ftruncate": dict(fd=0), "truncate": dict(p=[0]),
    "fsync": dict(fd=0), "fdatasync": dict(fd=0), "sync_file_range": dict(fd=0),
    "copy_file_range": dict(fd=2, src=0), "sendfile": dict(fd=0, src=1),
    "ioctl": dict(fd=0), "mmap": dict(fd=4), "msync": dict(), "munmap": dict(),
    "chmod": dict(p=[0]), "fchmod": dict(fd=0), "fchmodat": dict(at=[(0, 1)]),
    "chown": dict(p=[0]), "lchown": dict(p=[0]), "fchown": dict(fd=0), "fchownat": dict(at=[(0, 1)]),
    "utimensat": dict(at=[(0, 1)]), "futimesat": dict(at=[(0, 1)]), "utime": dict(p=[0]), "utimes": dict(p=[0]),
    "stat": dict(p=[0]), "lstat": dict(p=[0]), "fstat": dict(fd=0), "newfstatat": dict(at=[(0, 1)]), "statx": dict(at=[(0, 1)]),
    "access": dict(p=[0]), "faccessat": dict(at=[(0, 1)]), "faccessat2": dict(at=[(0, 1)]),
    "readlink": dict(p=[0]), "readlinkat": dict(at=[(0, 1)]),
    "getdents64": dict(fd=0), "getdents": dict(fd=0), "lseek": dict(fd=0),
    "chdir": dict(p=[0]), "fchdir": dict(fd=0),
}
TRACE_SET = list(_T)
READS = {"read", "pread64", "readv", "preadv", "preadv2"}
WRITES = {"write", "pwrite64", "writev", "pwritev", "pwritev2"}
OPENS = {"open", "openat", "openat2", "creat"}
# observation-only calls: reported only with want_reads=True
QUERIES = READS | {"stat", "lstat", "fstat", "newfstatat", "statx", "access", "faccessat", "faccessat2", "readlink",
                   "readlinkat", "getdents64", "getdents", "lseek"}
_INTERNAL = {"chdir", "fchdir"}                 # traced for cwd tracking, never reported
_ALWAYS_MUT = {"mkdir", "mkdirat", "rename", "renameat", "renameat2", "unlink", "unlinkat", "rmdir", "link", "linkat",
               "symlink", "symlinkat", "fallocate", "ftruncate", "truncate", "copy_file_range", "sendfile",
               "chmod", "fchmod", "fchmodat", "chown", "lchown", "fchown", "fchownat", "utimensat", "futimesat",
               "utime", "utimes"}
FAULTABLE = (OPENS | READS | WRITES | {"mkdir", "mkdirat", "rename", "renameat", "renameat2", "unlink", "unlinkat", "rmdir",
             "link", "linkat", "symlink", "symlinkat", "fallocate", "ftruncate", "truncate", "fsync", "fdatasync",
             "mmap", "newfstatat", "statx", "fstat", "stat", "lstat", "getdents64", "copy_file_range", "sendfile",
             "ioctl", "readlink", "readlinkat", "lseek", "chmod", "fchmod", "fchmodat"})

_TMP_RE = re.compile(r"(^|/)tmp/\.tmp[A-Za-z0-9]{6}(?=/|$)")

def _norm_tmp(rel):
    return _TMP_RE.sub(r"\1tmp/.tmp*", rel)

def signature(c):
    """identity of a call that is stable from run to run"""
    np = lambda pr: None if pr is None else (pr[0], _norm_tmp(pr[1]))
    fl = c.get("flags")
    return (c["name"], tuple(np(p) for p in c.get("paths", ())), np(c.get("fdpath")), fl,
            c.get("cmd"), c.get("count"))

def brief(c):
    ps = " ".join("%s:%s" % p for p in c.get("paths", ()))
    r = c.get("ret")
    s = "#%s %s[%s] %s" % (c.get("idx"), c["name"], c.get("thread_ord"), ps)
    if c.get("flags"):
        s += " " + c["flags"]
    if c.get("buf") is not None:
        s += " len=%d" % (len(c["buf"]) // 2)
    s += " = %s" % ("?" if r is None else r)
    if c.get("errno"):
        s += " " + c["errno"]
    if c.get("injected"):
        s += " (INJECTED)"
    return s

# ------------------------------------------------------------------------------------------------------------
# log parsing

_HEX_RUN = re.compile(rb"(?:\\x[0-9a-f]{2})+")
_LINE = re.compile(r"^(\d+)\s+(.*)$", re.S)
_ENTRY = re.compile(r"^([a-z_0-9]+)\((.*)$", re.S)
_RESUMED = re.compile(r"^<\.\.\. ([a-z_0-9]+) resumed>(.*)$", re.S)
_RET = re.compile(r"^(0x[0-9a-f]+|-?\d+|\?)(<[^>]*>)?(?:\s+([A-Z][A-Z0-9_]+)\b)?(.*)$", re.S)
_FDARG = re.compile(r"^(-?\d+|AT_FDCWD)(?:<(.*)>)?$", re.S)
_UNFIN = " <unfinished ...>"

def _unesc(s):
    """decode strace -xx escapes (and the few C escapes strace may still emit) in a str -> bytes"""
    b = s.encode("latin1")
    if b"\\" not in b:
        return b
    out = bytearray()
    i, n = 0, len(b)
    while i < n:
        ch = b[i]
        if ch != 0x5c:
            j = b.find(b"\\", i)
            if j < 0:
                j = n
            out += b[i:j]
            i = j
            continue
        m = _HEX_RUN.match(b, i)
        if m:
            out += bytes.fromhex(m.group(0).replace(b"\\x", b"").decode())
            i = m.end()
            continue
        nx = b[i + 1:i + 2]
        simple = {b"n": 10, b"t": 9, b"r": 13, b"v": 11, b"f": 12, b'"': 34, b"\\": 92}
        if nx in simple:
            out.append(simple[nx]); i += 2
        elif nx and nx in b"01234567":
            j = i + 1
            while j < n and j < i + 4 and b[j:j + 1] in b"01234567":
                j += 1
            out.append(int(b[i + 1:j], 8) & 255); i = j
        else:
            out.append(ch); i += 1
    return bytes(out)

def _split_args(s):
    """split an argument text on top-level ', ' (quotes and ([{ nesting respected)"""
    args, depth, cur, i, n, inq = [], 0, [], 0, len(s), False
    start = 0
    while i < n:
        ch = s[i]
        if inq:
            if ch == "\\":
                i += 2
                continue
            if ch == '"':
                inq = False
        elif ch == '"':
            inq = True
        elif ch in "([{":
            depth += 1
        elif ch in ")]}":
            depth -= 1
        elif ch == "," and depth == 0 and s[i + 1:i + 2] == " ":
            args.append(s[start:i]); start = i + 2; i += 2
            continue
        i += 1
    tail = s[start:]
    if tail.strip() != "" or args:
        args.append(tail)
    return [a.strip() for a in args]

def _str_arg(a):
    """a quoted string argument -> bytes (None for NULL / addresses)"""
    a = a.strip()
    if not a.startswith('"'):
        return None
    j = a.rfind('"')
    return _unesc(a[1:j])

def _fd_arg(a):
    """'3</path>' -> (3, b'/path'); 'AT_FDCWD</cwd>' -> ('AT_FDCWD', b'/cwd'); decoration may be missing"""
    m = _FDARG.match(a.strip())
    if not m:
        return None, None
    fd = m.group(1)
    fd = fd if fd == "AT_FDCWD" else int(fd)
    return fd, (None if m.group(2) is None else _unesc(m.group(2)))

def _iov_data(a):
    out = bytearray()
    for m in re.finditer(r'iov_base="((?:[^"\\]|\\.)*)"', a):
        out += _unesc(m.group(1))
    return bytes(out)

class _Parser:
    def __init__(self, cache, ext, cwd, want_reads):
        self.roots = []
        for tag, d in (("c", cache), ("e", ext)):
            for v in {os.path.abspath(d), os.path.realpath(d)}:
                self.roots.append((tag, v.rstrip("/") or "/"))
        self.cwd = cwd
        self.want_reads = want_reads
        self.maps = {}                          # addr -> (len, fdpath pair)  shared file mappings
        self.fds = {}                           # fd -> path bytes of the last successful open returning it

    def classify(self, p):
        """absolute byte/str path -> (root, rel)"""
        if isinstance(p, bytes):
            p = p.decode("utf-8", "surrogateescape")
        if not p.startswith("/"):
            return ("o", p)
        q = os.path.normpath(p)
        if q.startswith("//"):
            q = q[1:]
        for tag, r in self.roots:
            if q == r:
                return (tag, "")
            if q.startswith(r + "/"):
                return (tag, q[len(r) + 1:])
        return ("o", q)

    def resolve(self, base, path):
        """base: bytes dir or None (=cwd); path: bytes"""
        ps = path.decode("utf-8", "surrogateescape")
        if ps.startswith("/"):
            return ps
        b = self.cwd if base is None else base.decode("utf-8", "surrogateescape")
        return b if ps == "" else b.rstrip("/") + "/" + ps

    def build(self, tid, name, argtext, rettext, offset, ord_):
        """-> Call (always; caller filters on c['report'])"""
        c = Call(tid=tid, name=name, args=argtext, ret=None, errno=None, paths=[], thread_ord=ord_, line=offset,
                 mutating=False, injected=False)
        # ---- return value
        retfd_path = None
        if rettext is not None:
            m = _RET.match(rettext.strip())
            if m:
                v = m.group(1)
                if v != "?":
                    c["ret"] = int(v, 16) if v.startswith("0x") else int(v)
                if m.group(2):
                    retfd_path = _unesc(m.group(2)[1:-1])
                    if name in OPENS and c["ret"] is not None and c["ret"] >= 0:
                        self.fds[c["ret"]] = retfd_path
                if m.group(3) and c["ret"] in (None, -1):
                    c["errno"] = m.group(3)
                if "(INJECTED)" in (m.group(4) or ""):
                    c["injected"] = True
        spec = _T.get(name)
        if spec is None:
            c["report"] = False
            return c
        a = _split_args(argtext)
        get = lambda i: a[i] if i is not None and i < len(a) else ""
        nonfs = False
        rawpaths = []                           # absolute strings as strace -P would compare them
        # ---- path arguments
        for i in spec.get("p", ()):
            b = _str_arg(get(i))
            if b is not None:
                full = self.resolve(None, b)
                rawpaths.append(full)
                c["paths"].append(self.classify(full))
        for di, pi in spec.get("at", ()):
            fd, deco = _fd_arg(get(di))
            b = _str_arg(get(pi))
            if b is None or b == b"":
                if deco is not None:            # AT_EMPTY_PATH / NULL path: the descriptor itself
                    full = deco.decode("utf-8", "surrogateescape")
                    if not full.startswith("/"):
                        nonfs = True
                    rawpaths.append(full)
                    c["paths"].append(self.classify(full))
                continue
            base = deco if (deco is not None and deco.startswith(b"/")) else None
            full = self.resolve(base, b)
            rawpaths.append(full)
            c["paths"].append(self.classify(full))
        if "target" in spec:
            t = _str_arg(get(spec["target"]))
            c["target"] = None if t is None else t.decode("utf-8", "surrogateescape")
        # ---- descriptor arguments
        if "fd" in spec:
            fd, deco = _fd_arg(get(spec["fd"]))
            c["fd"] = fd
            if deco is not None:
                full = deco.decode("utf-8", "surrogateescape")
                if full.endswith(" (deleted)"):
                    full = full[:-10]; c["deleted"] = True
                if not full.startswith("/"):
                    nonfs = True
                c["fdpath"] = self.classify(full)
                rawpaths.append(full)
                if "src" in spec:
                    sfd, sdeco = _fd_arg(get(spec["src"]))
                    if sdeco is not None:
                        sfull = sdeco.decode("utf-8", "surrogateescape")
                        c["srcpath"] = self.classify(sfull)
                        c["paths"].append(c["srcpath"])
                        rawpaths.append(sfull)
                c["paths"].append(c["fdpath"])
            else:
                c["fdpath"] = None
        c["rawpaths"] = rawpaths
        # ---- flags
        if name in OPENS:
            if name == "creat":
                c["flags"] = "O_WRONLY|O_CREAT|O_TRUNC"
            else:
                f = get(spec["fl"])
                if name == "openat2":
                    m = re.search(r"flags=([A-Z_|0-9x]+)", f)
                    f = m.group(1) if m else f
                c["flags"] = f
            if retfd_path is not None:
                c["retpath"] = self.classify(retfd_path.decode("utf-8", "surrogateescape"))
        fs = set((c.get("flags") or "").split("|"))
        ok = c["ret"] is not None and c["ret"] >= 0
        inside = lambda pr: pr is not None and pr[0] in ("c", "e")
        fsfile = lambda pr: pr is not None and (pr[0] in ("c", "e") or (pr[1].startswith("/") and
                                                not pr[1].startswith(("/dev/", "/proc/"))))
        report = not nonfs and name not in _INTERNAL
        # ---- data
        if name in READS or name in WRITES:
            if "iov" in spec:
                buf = _iov_data(get(spec["iov"]))
            else:
                buf = _str_arg(get(spec["data"]))
                cnt = get(2)
                if cnt.isdigit():
                    c["count"] = int(cnt)
            if "off" in spec and get(spec["off"]).lstrip("-").isdigit():
                c["offset"] = int(get(spec["off"]))
            if inside(c.get("fdpath")):
                if buf is not None:
                    c["buf"] = buf.hex()
                    if c["ret"] is None:
                        c["data"] = c["buf"]
                    else:
                        c["data"] = buf[:max(c["ret"], 0)].hex()
                else:
                    c["buf"] = c["data"] = None if c["ret"] is None else ""
            if name in READS and not self.want_reads:
                report = False
        elif name in QUERIES and not self.want_reads:
            report = False
        # ---- special cases
        if name == "ioctl":
            cmd = get(1)
            c["cmd"] = cmd
            if "FICLONE" not in cmd:
                report = False
            else:
                sfd, sdeco = _fd_arg(get(2))
                if sdeco is None:
                    m = re.search(r"src_fd=(\d+)(?:<([^>]*)>)?", get(2))
                    if m:
                        sfd = int(m.group(1))
                        sdeco = _unesc(m.group(2)) if m.group(2) else None
                if sdeco is None and isinstance(sfd, int):     # strace does not decorate the FICLONE source fd
                    sdeco = self.fds.get(sfd)
                if sdeco is not None:
                    c["srcpath"] = self.classify(sdeco.decode("utf-8", "surrogateescape"))
                    c["paths"].insert(0, c["srcpath"])
        elif name == "mmap":
            flags = get(3)
            c["prot"], c["mflags"] = get(2), flags
            if "MAP_SHARED" not in flags or c.get("fdpath") is None or nonfs:
                report = False
            else:
                c["shared_write"] = "PROT_WRITE" in get(2)
                if c["ret"] is not None and c["ret"] > 0 and get(1).isdigit():
                    self.maps[c["ret"]] = (int(get(1)), c["fdpath"], c["shared_write"])
        elif name in ("msync", "munmap"):
            try:
                addr = int(get(0), 16)
            except ValueError:
                addr = None
            hit = None
            for base, (ln, fp, sw) in self.maps.items():
                if addr is not None and base <= addr < base + ln:
                    hit = (base, fp, sw)
            if hit is None:
                report = False
            else:
                c["fdpath"] = hit[1]; c["paths"] = [hit[1]]; c["shared_write"] = hit[2]
                if name == "munmap" and ok:
                    self.maps.pop(hit[0], None)
        elif name == "chdir" and ok and c["paths"]:
            self.cwd = rawpaths[0]
        elif name == "fchdir" and ok and rawpaths:
            self.cwd = rawpaths[0]
        # ---- mutating?
        mut = False
        if ok:
            if name in _ALWAYS_MUT:
                mut = True
            elif name in OPENS:
                acc_w = bool(fs & {"O_WRONLY", "O_RDWR"})
                if "O_CREAT" in fs:
                    mut = True
                    if "O_EXCL" not in fs:
                        c["maycreate"] = True
                if "O_TRUNC" in fs and acc_w:
                    mut = True; c["maytruncate"] = True
                if "O_TMPFILE" in fs or "__O_TMPFILE" in fs:
                    mut = True
            elif name in WRITES:
                mut = c["ret"] > 0 and fsfile(c.get("fdpath")) and not nonfs
            elif name == "ioctl":
                mut = report
        if name in ("copy_file_range", "sendfile") and mut:
            mut = c["ret"] > 0 and fsfile(c.get("fdpath")) and not nonfs
        if name in ("fchmod", "fchown", "fallocate", "ftruncate") and nonfs:
            mut = False
        c["mutating"] = bool(mut)
        c["report"] = report
        return c

def parse_log(path, cache, ext, cwd, want_reads=False):
    """-> (all_calls (every logged syscall, entry order), info) ; reported calls have c['report']"""
    P = _Parser(cache, ext, cwd, want_reads)
    with open(path, "rb") as f:
        raw = f.read()
    pending = {}                                # tid -> (name, text so far, offset, ord)
    ords = {}
    calls = []
    info = {"killed": {}, "exited": {}, "signals": [], "injected_lines": raw.count(b"(INJECTED)")}
    pos = 0
    order = []                                  # (offset, tid, name, argtext, rettext, ord)
    for lineb in raw.split(b"\n"):
        off = pos
        pos += len(lineb) + 1
        if not lineb:
            continue
        m = _LINE.match(lineb.decode("latin1"))
        if not m:
            continue
        tid, body = int(m.group(1)), m.group(2)
        if body.startswith("+++"):
            mk = re.match(r"\+\+\+ killed by (\w+)", body)
            if mk:
                info["killed"][tid] = mk.group(1)
            me = re.match(r"\+\+\+ exited with (\d+)", body)
            if me:
                info["exited"][tid] = int(me.group(1))
            continue
        if body.startswith("---"):
            info["signals"].append((tid, body))
            continue
        mr = _RESUMED.match(body)
        if mr:
            pe = pending.pop(tid, None)
            if pe is None or pe[0] != mr.group(1):
                continue
            name, text, off0, o = pe
            text = text + mr.group(2)
            off = off0
        else:
            me = _ENTRY.match(body)
            if not me:
                continue
            name, text = me.group(1), me.group(2)
            o = ords[(tid, name)] = ords.get((tid, name), 0) + 1
            if text.endswith(_UNFIN):
                pending[tid] = (name, text[:-len(_UNFIN)], off, o)
                continue
        # complete (or terminally incomplete "= ?") line
        k = text.rfind(") = ")
        if k < 0:
            m2 = re.search(r"\)\s+= ", text)
            k = m2.start() if m2 else -1
        if k >= 0:
            argtext = text[:k]
            rettext = text[k + 1:].lstrip()[2:]
        else:
            argtext, rettext = text, None
        order.append((off, tid, name, argtext, rettext, o))
    for tid, (name, text, off0, o) in pending.items():      # never resumed: killed while inside / on entry
        order.append((off0, tid, name, text, None, o))
    order.sort(key=lambda t: t[0])
    for off, tid, name, argtext, rettext, o in order:
        calls.append(P.build(tid, name, argtext, rettext, off, o))
    return calls, info

# ------------------------------------------------------------------------------------------------------------
# running

def _kill_tree(p):
    try:
        os.killpg(p.pid, signal.SIGKILL)
    except Exception:
        try:
            p.kill()
        except Exception:
            pass

def _tids(pid):
    try:
        return sorted(int(t) for t in os.listdir("/proc/%d/task" % pid))
    except OSError:
        return []

def _tracer(pid, tid):
    try:
        with open("/proc/%d/task/%d/status" % (pid, tid)) as f:
            for l in f:
                if l.startswith("TracerPid:"):
                    return int(l.split()[1])
    except OSError:
        return None
    return None

def _roles(pid):
    """{tid: role}: role = thread name (comm), made unique with '#k' among equally named threads (tid order)"""
    out, seen = {}, {}
    for t in _tids(pid):
        try:
            with open("/proc/%d/task/%d/comm" % (pid, t)) as f:
                comm = f.read().strip()
        except OSError:
            continue
        k = seen[comm] = seen.get(comm, 0) + 1
        out[t] = comm if k == 1 else "%s#%d" % (comm, k)
    return out

def _wait_attach(st, errpath, pid, tids, deadline, nmsg=1):
    while True:
        if st.poll() is not None:
            try:
                msg = open(errpath, "rb").read().decode("latin1")
            except OSError:
                msg = ""
            raise TraceError("strace exited during attach: rc=%s %s" % (st.returncode, msg.strip()))
        try:
            txt = open(errpath, "rb").read()
        except OSError:
            txt = b""
        if txt.count(b"attached") >= nmsg and all(_tracer(pid, t) == st.pid for t in tids):
            return
        if time.time() > deadline:
            raise TraceError("timeout while attaching strace: " + txt.decode("latin1"))
        time.sleep(0.001)

class _Harness:
    def __init__(self, flavour, cache, ext, env, cwd, link_to):
        exe = "%s/bin/cch-%s%s" % (IMPL, flavour, "-link_to" if link_to else "")
        for attempt in range(100):
            try:
                self.p = subprocess.Popen([exe, cache, ext], stdin=subprocess.PIPE, stdout=subprocess.PIPE,
                                          stderr=subprocess.DEVNULL, env=env, cwd=cwd, bufsize=0, start_new_session=True)
                break
            except OSError as ex:               # ETXTBSY: the binary is being re-installed by a concurrent build
                if ex.errno != 26 or attempt == 99:
                    raise
                time.sleep(0.1)
        self.buf = b""
        self.fd = self.p.stdout.fileno()

    def send(self, d):
        try:
            self.p.stdin.write(json.dumps(d).encode() + b"\n")
            return True
        except (BrokenPipeError, OSError):
            return False

    def recv(self, deadline):
        """one result line -> dict, None on EOF; raises TimeoutError"""
        while b"\n" not in self.buf:
            left = deadline - time.time()
            if left <= 0:
                raise TimeoutError()
            r, _, _ = _select.select([self.fd], [], [], min(left, 1.0))
            if not r:
                continue
            chunk = os.read(self.fd, 1 << 16)
            if not chunk:
                return None
            self.buf += chunk
        line, self.buf = self.buf.split(b"\n", 1)
        try:
            return json.loads(line)
        except ValueError:
            return {"r": "garbled", "raw": line.decode("latin1")}

def _mk_logdir(logdir):
    if logdir is None:
        os.makedirs(SCRATCH, exist_ok=True)
        return tempfile.mkdtemp(prefix="log-", dir=SCRATCH)
    os.makedirs(logdir, exist_ok=True)
    return logdir

def default_warmup(flavour):
    """ops run untraced before strace attaches: for the async runtimes one read-only look-up of an absent key, so
    that the runtime threads (reactor, blocking pool thread) exist - and have names - when strace attaches"""
    if flavour.startswith("sync"):
        return []
    return [{"op": "metadata", "fl": "async", "key": "0074726163657761726d7570"}]

def trace_ops(flavour, cache, ext, ops, env=None, timeout=120, link_to=False, want_reads=False,
              inject=None, pin=None, cwd=None, logdir=None, warmup=None, only=None):
    """Run a fresh harness on (cache, ext) under strace, feed `ops` one at a time.

    inject: text after `-e inject=` (e.g. "write:signal=SIGKILL:when=3") or None
    pin:    absolute path for `strace -P` (only calls naming exactly this path are traced/counted) or None
    cwd:    working directory of the harness (default: the parent directory of `cache`)
    warmup: ops executed *untraced* right after start (before strace attaches); results in info["warmup"]
    only:   role (thread name, see info["roles"]) of the single thread to trace; every other thread existing at
            attach time is given to the shield.  Threads created later by the traced thread are followed.
    Returns {"results","calls","spans","exit","killed_by","log","all_calls","info"}; the log lives in its own
    directory until cleanup(result) is called."""
    cache, ext = os.path.abspath(cache), os.path.abspath(ext)
    cwd = os.path.abspath(cwd) if cwd else os.path.dirname(cache)
    e = dict(os.environ)
    e.setdefault("CCH_TIMEOUT_MS", "15000")
    e["CCH_SINGLE"] = "1"
    if flavour.startswith("astd"):
        e["ASYNC_STD_THREAD_COUNT"] = "1"
    if env:
        e.update(env)
    ld = _mk_logdir(logdir)
    log = os.path.join(ld, "strace.log")
    open(log, "wb").close()
    deadline = time.time() + timeout
    h = _Harness(flavour, cache, ext, e, cwd, link_to)
    shield = tracer = None
    results, starts = [], []
    timed_out = failed = False
    sts = {}
    def abort():
        # a killed tracee can only be reaped once its tracer has seen the death: a tracer that is busy (delay
        # injection) or stuck would block us, so the straces are killed too
        _kill_tree(h.p)
        for st in sts.values():
            _kill_tree(st)
    try:
        # quiesce: after the answer to a ping the worker exists and is parked, main goes back to read(0)
        if not h.send({"op": "ping"}) or (h.recv(deadline) or {}).get("r") != "ok":
            raise TraceError("harness did not answer the initial ping")
        pid = h.p.pid
        wres = []
        for w in (warmup or ()):
            if not h.send(w):
                raise TraceError("harness died during warm-up")
            wr = h.recv(deadline)
            wres.append(wr)
            if wr is None or wr.get("r") == "hang":
                raise TraceError("harness died during warm-up: %r" % (wr,))
        roles = _roles(pid)
        others = [t for t in roles if t != pid]
        if not others:
            raise TraceError("harness has no worker thread to attach to")
        if only is not None:
            sel = [t for t in others if roles[t] == only]
            if len(sel) != 1:
                raise TraceError("no thread with role %r (threads: %r)" % (only, roles))
            others = sel
        shielded = [t for t in roles if t not in others]
        serr = os.path.join(ld, "shield.err")
        sargv = [STRACE, "-e", "trace=none", "-o", "/dev/null"]
        for t in shielded:
            sargv += ["-p", str(t)]
        with open(serr, "wb") as ef:
            shield = subprocess.Popen(sargv, stdin=subprocess.DEVNULL, stdout=subprocess.DEVNULL, stderr=ef,
                                      start_new_session=True)
        sts["shield"] = shield
        _wait_attach(shield, serr, pid, shielded, deadline, nmsg=len(shielded))
        terr = os.path.join(ld, "strace.err")
        argv = [STRACE, "-f", "-y", "-xx", "-s", str(STRSIZE), "-o", log,
                "-e", "trace=" + ",".join("?" + n for n in TRACE_SET)]
        if inject:
            argv += ["-e", "inject=" + inject]
        for extra in EXTRA_INJECT:          # persistent environment faults (e.g. every rename fails), set by the caller
            argv += ["-e", "inject=" + extra]
        if pin:
            argv += ["-P", pin]
        argv += ["-p", str(others[0])]
        with open(terr, "wb") as ef:
            tracer = subprocess.Popen(argv, stdin=subprocess.DEVNULL, stdout=subprocess.DEVNULL, stderr=ef,
                                      start_new_session=True)
        sts["tracer"] = tracer
        _wait_attach(tracer, terr, pid, others, deadline)
        dead = False
        for op in ops:
            if dead:
                results.append(None); starts.append(None)
                continue
            starts.append(os.path.getsize(log))
            if not h.send(op):
                results.append(None); dead = True
                continue
            try:
                r = h.recv(deadline)
            except TimeoutError:
                timed_out = True
                results.append(None); dead = True
                abort()
                continue
            results.append(r)
            if r is None or r.get("r") == "hang":
                dead = True
            else:
                for t, ro in _roles(pid).items():       # names of threads born during this op
                    roles.setdefault(t, ro)
        try:
            h.p.stdin.close()
        except Exception:
            pass
        try:
            h.p.wait(timeout=max(1.0, min(30.0, deadline - time.time())))
        except subprocess.TimeoutExpired:
            timed_out = True
            abort()
            h.p.wait()
    except BaseException:
        abort()
        h.p.wait()
        failed = True
        raise
    finally:
        if h.p.poll() is None:
            abort()
            h.p.wait()
        for s in (tracer, shield):
            if s is None:
                continue
            try:
                s.wait(timeout=10)
            except subprocess.TimeoutExpired:
                _kill_tree(s)
                s.wait()
        for f in (h.p.stdin, h.p.stdout):
            try:
                f.close()
            except Exception:
                pass
        if failed:
            shutil.rmtree(ld, ignore_errors=True) if logdir is None else None
    allc, info = parse_log(log, cache, ext, cwd, want_reads)
    calls = []
    for c in allc:
        if c.pop("report"):
            c["idx"] = len(calls)
            calls.append(c)
    # spans from log offsets: op i owns the calls whose first line starts in [start_i, start_{i+1})
    spans = []
    offs = [c["line"] for c in calls]
    for i, s in enumerate(starts):
        if s is None:
            spans.append((len(calls), len(calls)))
            continue
        nxt = next((t for t in starts[i + 1:] if t is not None), None)
        a = bisect.bisect_left(offs, s)
        b = len(calls) if nxt is None else bisect.bisect_left(offs, nxt)
        spans.append((a, b))
    rc = h.p.returncode
    killed_by = None
    if rc is not None and rc < 0:
        try:
            killed_by = signal.Signals(-rc).name
        except ValueError:
            killed_by = str(-rc)
    info["timed_out"] = timed_out
    info["starts"] = starts
    info["roles"] = roles
    info["attached"] = sorted(others)
    info["warmup"] = wres
    for c in allc:
        c["role"] = roles.get(c["tid"])
    try:
        info["strace_stderr"] = open(os.path.join(ld, "strace.err"), "rb").read().decode("latin1")
    except OSError:
        info["strace_stderr"] = ""
    return {"results": results, "calls": calls, "spans": spans, "exit": rc, "killed_by": killed_by,
            "log": log, "all_calls": allc, "info": info, "cache": cache, "ext": ext}

def cleanup(res):
    """remove the log (directory) of a trace_ops result (or of a log path)"""
    p = res["log"] if isinstance(res, dict) else res
    d = os.path.dirname(p)
    if os.path.basename(d).startswith("log-") or os.path.basename(p) == "strace.log":
        shutil.rmtree(d, ignore_errors=True)
    else:
        try:
            os.unlink(p)
        except OSError:
            pass

def outside_mutations(calls, allow_ext=True):
    """mutating calls naming a path outside the cache (and outside ext when allow_ext)"""
    okroots = ("c", "e") if allow_ext else ("c",)
    out = []
    for c in calls:
        if not c.get("mutating"):
            continue
        ps = list(c.get("paths", ()))
        if c.get("retpath") is not None:
            ps.append(c["retpath"])
        for root, rel in ps:
            if root in okroots:
                continue
            if root == "o" and (not rel.startswith("/") or rel == "/dev/null" or rel.startswith(("/proc/", "/dev/pts/"))
                                or rel.startswith(SCRATCH + "/log-")):
                continue
            out.append(c)
            break
    return out

def torn_lengths(n, torn="all"):
    if torn is None or n is None:
        return []
    if torn == "all":
        return list(range(1, n))
    return sorted({int(k) for k in torn if 1 <= int(k) < n})

def dump_after(cache, ext, *_):
    from cc import ops as _ops
    return _ops.dump_real(cache, ext)

# ------------------------------------------------------------------------------------------------------------
# sweeps

def _default_kill_select(c):
    return bool(c.get("mutating"))

def _inside(c):
    return any(p is not None and p[0] in ("c", "e") for p in list(c.get("paths", ())) + [c.get("fdpath")])

def _default_fault_select(c):
    return c["name"] in FAULTABLE and _inside(c)

def _pin_rel(c):
    """(root, rel) usable for strace -P, or None (temp names are random; calls naming two paths: use the stable one)"""
    cands = []
    if c.get("fdpath") is not None and c["name"] not in OPENS:
        cands.append(c["fdpath"])
    cands += list(c.get("paths", ()))
    for root, rel in cands:
        if root in ("c", "e") and not _TMP_RE.search(rel) and rel != "":
            return (root, rel)
    return None

def _abs_of(pr, cache, ext):
    base = cache if pr[0] == "c" else ext
    return base if pr[1] == "" else os.path.join(base, pr[1])

def _pinned_ord(base, c, pr):
    """ordinal of c among the calls of the same tid and name (whole log) that name the path pr"""
    full = _abs_of(pr, base["cache"], base["ext"])
    n = 0
    for x in base["all_calls"]:
        if x["tid"] == c["tid"] and x["name"] == c["name"] and full in (x.get("rawpaths") or ()):
            n += 1
        if x is c:
            return n
    return None

def _span_sigs(calls, lo, hi):
    return [signature(x) for x in calls[lo:hi] if _inside(x)]

def _sig_rank(calls, lo, c):
    s = signature(c)
    return sum(1 for x in calls[lo:c["idx"]] if signature(x) == s)

def _verify(base, target, C, run, n, mode, errno=None, isolated=False):
    """-> (ok, reason, K) : was the single injection of `run` applied to the counterpart of C?"""
    calls, info = run["calls"], run["info"]
    lo, hi = run["spans"][target] if target < len(run["spans"]) else (0, 0)
    blo, bhi = base["spans"][target]
    if info.get("timed_out"):
        return False, "run timed out", None
    if any(r is None for r in run["results"][:target]):
        return False, "process died before the target op", None
    if errno is None:
        if run["killed_by"] != "SIGKILL":
            return False, "process was not killed (exit %r)" % (run["exit"],), None
        if run["results"][target] is not None:
            return False, "target op was answered before the kill", None
        hits = [x for x in run["all_calls"] if x["ret"] is None and x["name"] == C["name"] and x["thread_ord"] == n
                and x["errno"] is None]
    else:
        nl = info["injected_lines"]
        hits = [x for x in run["all_calls"] if x.get("injected")]
        if nl != 1 or len(hits) != 1:
            return False, "%d injections happened (expected exactly 1)" % max(nl, len(hits)), (hits[0] if hits else None)
    if len(hits) != 1:
        return False, "%d candidate calls were hit (expected exactly 1)" % len(hits), None
    K = hits[0]
    if K.get("idx") is None or not (lo <= K["idx"] < hi):
        return False, "injection hit a call outside the target op: " + brief(K), K
    if K["name"] != C["name"] or K["thread_ord"] != n:
        return False, "injection hit another ordinal: " + brief(K), K
    if errno is not None and K["errno"] != errno:
        return False, "injected call reports %s" % K["errno"], K
    if signature(K) != signature(C):
        return False, "injection hit a different call: %s (wanted %s)" % (brief(K), brief(C)), K
    if mode == "plain":
        # same point of the program: the c/e calls of the op before the hit are those of the fault-free run
        if isolated:        # the log only shows the thread of C: compare with that thread's calls of the fault-free run
            mine = [signature(x) for x in calls[lo:K["idx"]] if _inside(x) and x["tid"] == K["tid"]]
            ref = [signature(x) for x in base["calls"][blo:C["idx"]] if _inside(x) and x["tid"] == C["tid"]]
        else:
            mine, ref = _span_sigs(calls, lo, K["idx"]), _span_sigs(base["calls"], blo, C["idx"])
        if mine != ref:
            return False, "calls preceding the injection differ from the fault-free run", K
    else:
        # pinned log only shows calls on the pinned path: compare the occurrence rank within the op
        pr = _pin_rel(C)
        full_b = _abs_of(pr, base["cache"], base["ext"])
        rank_b = sum(1 for x in base["calls"][blo:C["idx"]] if signature(x) == signature(C)
                     and full_b in (x.get("rawpaths") or ()))
        if _sig_rank(calls, lo, K) != rank_b:
            return False, "pinned injection hit another occurrence of the call", K
    return True, None, K

def _counterpart(base, target, C, run):
    """the call of `run` corresponding to C: same signature and same occurrence rank inside the target op"""
    if target >= len(run["spans"]):
        return None
    lo, hi = run["spans"][target]
    rank = _sig_rank(base["calls"], base["spans"][target][0], C)
    s, k = signature(C), 0
    for x in run["calls"][lo:hi]:
        if signature(x) == s:
            if k == rank:
                return x
            k += 1
    return None

def _adapt(base, target, C, run, n):
    """ordinal to try next in plain mode after a failed attempt with when=n.  The ordinal of a call is not always
    reproducible (async-std's blocking thread issues a racy number of eventfd writes between its file writes):
    if the failed run shows the counterpart of C with another ordinal use that one; if the run was cut short by an
    unrelated call of the thread that does the file I/O, the wanted call comes later: try n+1."""
    X = _counterpart(base, target, C, run)
    if X is not None:
        return X["thread_ord"]
    if target < len(run["spans"]):
        lo, hi = run["spans"][target]
        iotids = {x["tid"] for x in run["calls"][lo:hi] if _inside(x)}
        for x in run["all_calls"]:
            if (x["name"] == C["name"] and x["thread_ord"] == n and (x["ret"] is None or x.get("injected"))
                    and x["tid"] in iotids):
                return n + 1
    return n

class _Dirs:
    """scratch directory pair for one run"""
    def __init__(self, tag):
        os.makedirs(SCRATCH, exist_ok=True)
        self.root = tempfile.mkdtemp(prefix="run-%s-" % tag, dir=SCRATCH)
        self.cache = os.path.join(self.root, "c")
        self.ext = os.path.join(self.root, "e")
        os.mkdir(self.cache); os.mkdir(self.ext)
        self.logdir = os.path.join(self.root, "log")
    def remove(self):
        shutil.rmtree(self.root, ignore_errors=True)

def _baseline(flavour, make_state, ops, target, env, timeout, link_to, want_reads, warmup):
    d = _Dirs("base")
    make_state(d.cache, d.ext)
    base = trace_ops(flavour, d.cache, d.ext, ops, env=env, timeout=timeout, link_to=link_to, want_reads=want_reads,
                     logdir=d.logdir, warmup=warmup)
    if any(r is None for r in base["results"]):
        d.remove()
        raise TraceError("fault-free run died: results=%r exit=%r" % (base["results"], base["exit"]))
    return d, base

def _attempt_modes(C, retries):
    pin = _pin_rel(C)
    seq = []
    for i in range(1 + retries):
        seq.append("pinned" if (pin is not None and i % 2 == 1) else "plain")
    return seq

def _iso_role(base, C, isolate):
    """role of the thread of C if that thread already existed when strace attached in the fault-free run"""
    if not isolate or C["tid"] not in base["info"]["attached"] or not C.get("role"):
        return None
    roles = base["info"]["roles"]
    if sum(1 for t in base["info"]["attached"] if roles.get(t) == C["role"]) != 1:
        return None
    return C["role"]

def _injected_run(flavour, make_state, ops, target, env, timeout, link_to, want_reads, base, C, action, mode, tag,
                  n_plain=None, warmup=None, only=None):
    """fresh dirs + make_state + traced run with one injection; -> (dirs, run, n)"""
    d = _Dirs(tag)
    try:
        make_state(d.cache, d.ext)
        pin = None
        n = n_plain or C["thread_ord"]
        if mode == "pinned":
            pr = _pin_rel(C)
            n = _pinned_ord(base, C, pr)
            pin = _abs_of(pr, d.cache, d.ext)
        run = trace_ops(flavour, d.cache, d.ext, ops, env=env, timeout=timeout, link_to=link_to, want_reads=want_reads,
                        inject="%s:%s:when=%d" % (C["name"], action, n), pin=pin, logdir=d.logdir,
                        warmup=warmup, only=only)
        return d, run, n
    except BaseException:
        d.remove()
        raise

def _slim(run):
    """drop the bulky private parts of a trace_ops result"""
    return {k: v for k, v in run.items() if k not in ("all_calls",)}

def _apply_torn(cache, ext, K, k):
    """append the first k bytes of the write K was about to do"""
    data = bytes.fromhex(K["buf"])[:k]
    path = _abs_of(K["fdpath"], cache, ext)
    if K.get("offset") is not None:
        with open(path, "r+b") as f:
            f.seek(K["offset"]); f.write(data)
    else:
        with open(path, "ab") as f:
            f.write(data)

def kill_sweep(flavour, make_state, ops, target, select=None, after=None, env=None, jobs=8, torn=None,
               torn_select=None, retries=3, timeout=120, link_to=False, info=None, warmup="auto", isolate=True):
    """SIGKILL the harness on entry to each selected call of ops[target]; see the module docstring.

    torn: None | "all" | list of lengths; torn_select(C) -> bool chooses the write calls that get torn states
    (default: every write-family call with data into the cache).  info: optional dict that receives
    {"baseline": <trace_ops result of the fault-free run (log already removed)>, "candidates": n, "seconds": t}."""
    t0 = time.time()
    select = select or _default_kill_select
    after = after or (lambda *a: None)
    if torn_select is None:
        torn_select = lambda c: True
    if warmup == "auto":
        warmup = default_warmup(flavour)
    bd, base = _baseline(flavour, make_state, ops, target, env, timeout, link_to, False, warmup)
    bd.remove()
    lo, hi = base["spans"][target]
    cands = [c for c in base["calls"][lo:hi] if select(c)]

    def one(C):
        out = []
        reason, K, run, d = None, None, None, None
        modes = _attempt_modes(C, retries)
        reasons = []
        n_plain = C["thread_ord"]
        only = _iso_role(base, C, isolate)
        for att, mode in enumerate(modes):
            try:
                d, run, n = _injected_run(flavour, make_state, ops, target, env, timeout, link_to, False, base, C,
                                          "signal=SIGKILL", mode, "k%d" % C["idx"], n_plain, warmup, only)
            except TraceError as ex:
                reasons.append("%s: %s" % (mode, ex)); only = None
                continue
            ok, reason, K = _verify(base, target, C, run, n, mode, isolated=only is not None)
            if ok:
                break
            reasons.append("%s(when=%d%s): %s" % (mode, n, ",only=" + only if only else "", reason))
            if mode == "plain":
                n_plain = _adapt(base, target, C, run, n)
            d.remove(); d = None
        else:
            return [{"call": C, "ok": False, "skipped": "; ".join(reasons), "killed_before": K, "after": None,
                     "results": run["results"][:target] if run else None, "torn": None, "attempts": len(modes)}]
        try:
            common = {"call": C, "ok": True, "skipped": None, "killed_before": K, "results": run["results"][:target],
                      "attempts": att + 1, "mode": mode, "only": only}
            ks = []
            if (torn is not None and C["name"] in WRITES and K.get("buf") and K.get("fdpath") and K["fdpath"][0] == "c"
                    and torn_select(C)):
                ks = torn_lengths(len(K["buf"]) // 2, torn)
            if ks:
                # `after` may modify the directories: keep a pristine copy and restore it *in place* for every
                # state, so that absolute paths stored inside the tree (symlinks) stay valid
                keep = d.root + ".keep"
                os.mkdir(keep)
                shutil.copytree(d.cache, keep + "/c", symlinks=True)
                shutil.copytree(d.ext, keep + "/e", symlinks=True)
            out.append(dict(common, torn=None, after=after(d.cache, d.ext, C)))
            for k in ks:
                shutil.rmtree(d.cache); shutil.rmtree(d.ext)
                shutil.copytree(keep + "/c", d.cache, symlinks=True)
                shutil.copytree(keep + "/e", d.ext, symlinks=True)
                _apply_torn(d.cache, d.ext, K, k)
                out.append(dict(common, torn=k, after=after(d.cache, d.ext, C)))
            if ks:
                shutil.rmtree(keep, ignore_errors=True)
        finally:
            shutil.rmtree(d.root + ".keep", ignore_errors=True)
            d.remove()
        return out

    res = []
    with ThreadPoolExecutor(max_workers=max(1, jobs)) as ex:
        for r in ex.map(one, cands):
            res.extend(r)
    if info is not None:
        info.update(baseline=_slim(base), candidates=len(cands), seconds=time.time() - t0)
    return res

def fault_sweep(flavour, make_state, ops, target, errnos=("EIO", "ENOSPC", "EACCES", "EMFILE"), select=None,
                after=None, env=None, jobs=8, retries=3, timeout=120, link_to=False, info=None, warmup="auto",
                isolate=True):
    """Make each selected call of ops[target] fail once with each errno (the call is not executed)."""
    t0 = time.time()
    select = select or _default_fault_select
    after = after or (lambda *a: None)
    if warmup == "auto":
        warmup = default_warmup(flavour)
    bd, base = _baseline(flavour, make_state, ops, target, env, timeout, link_to, True, warmup)
    bd.remove()
    lo, hi = base["spans"][target]
    cands = [(c, e) for c in base["calls"][lo:hi] if select(c) for e in errnos]

    def one(ce):
        C, errno = ce
        modes = _attempt_modes(C, retries)
        reasons = []
        K = run = None
        n_plain = C["thread_ord"]
        only = _iso_role(base, C, isolate)
        for att, mode in enumerate(modes):
            try:
                d, run, n = _injected_run(flavour, make_state, ops, target, env, timeout, link_to, True, base, C,
                                          "error=" + errno, mode, "f%d" % C["idx"], n_plain, warmup, only)
            except TraceError as ex:
                reasons.append("%s: %s" % (mode, ex)); only = None
                continue
            ok, reason, K = _verify(base, target, C, run, n, mode, errno=errno, isolated=only is not None)
            if ok:
                break
            reasons.append("%s(when=%d%s): %s" % (mode, n, ",only=" + only if only else "", reason))
            if mode == "plain":
                n_plain = _adapt(base, target, C, run, n)
            d.remove()
        else:
            return {"call": C, "errno": errno, "ok": False, "skipped": "; ".join(reasons), "results": run["results"] if run else None,
                    "after": None, "injected_at": K, "died": None, "attempts": len(modes)}
        try:
            rs = run["results"]
            died = any(r is None for r in rs) or run["exit"] != 0
            hang = any(r is not None and r.get("r") == "hang" for r in rs)
            return {"call": C, "errno": errno, "ok": True, "skipped": None, "results": rs, "result": rs[target],
                    "died": died, "hang": hang, "exit": run["exit"], "injected_at": K,
                    "after": after(d.cache, d.ext, C, errno), "attempts": att + 1, "mode": mode, "only": only}
        finally:
            d.remove()

    with ThreadPoolExecutor(max_workers=max(1, jobs)) as ex:
        res = list(ex.map(one, cands))
    if info is not None:
        info.update(baseline=_slim(base), candidates=len(cands), seconds=time.time() - t0)
    return res
