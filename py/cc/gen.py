"""Generators.  Every random choice derives from one `random.Random(seed)`; each suite yields
(program, flavours) pairs, a program being a list of op dicts (see ops.py)."""
import itertools, json, random
from . import hashes, ref

def kx(s) -> str:
    return (s if isinstance(s, bytes) else s.encode()).hex()

SMALL_KEYS = ["a", "b", "k1", "key two"]
HOSTILE_KEYS = ["", "x" * 4096, "tab\there", "nl\nhere", 'q"uote\\', "nul\x00byte", "../../etc/passwd", "/abs/path",
                "CaSe", "case", "é", "é", "\U0001F600", "a\rb", " lead", "trail ", "\x7f\x1f"]
FAKE_SRIS = [hashes.sri("sha256", b"v1"), hashes.sri("sha256", b"v2"), hashes.sri("sha1", b"v1"),
             hashes.sri("sha512", b"v3"), hashes.sri("xxh3", b"v4"), hashes.sri("sha384", b"v5")]
METAS = [None, True, 0, -1, 18446744073709551615, -9223372036854775808, "s", "q\"\\\n\t\u0001é\U0001F600", [], {},
         [1, [2, [3, []]], {"a": None}], {"b": 1, "a": {"z": [True, False, None], "y": " "}, "": "empty key"}]
FLS = {"sync": ["sync"], "astd": ["sync", "async"], "tok": ["sync", "async"]}

def pick_fl(rng, flavour):
    return rng.choice(FLS[flavour])

def rand_bytes(rng, n):
    return bytes(rng.getrandbits(8) for _ in range(n))

def rand_key(rng, hostile=0.2):
    if rng.random() < hostile:
        return rng.choice(HOSTILE_KEYS)
    return rng.choice(SMALL_KEYS)

def rand_meta(rng, depth=0):
    r = rng.random()
    if depth > 3 or r < 0.5:
        return rng.choice([None, True, False, rng.randrange(-5, 100), rng.randrange(-2**63, 2**64),
                           "".join(rng.choice("ab \"\\\n\t\x01é中\U0001F600/") for _ in range(rng.randrange(0, 6)))])
    if r < 0.75:
        return [rand_meta(rng, depth + 1) for _ in range(rng.randrange(0, 4))]
    return {"".join(rng.choice("abc\"\né") for _ in range(rng.randrange(0, 3))): rand_meta(rng, depth + 1)
            for _ in range(rng.randrange(0, 4))}

def rand_insert(rng, key, fl):
    op = {"op": "insert", "fl": fl, "key": kx(key), "sri": rng.choice(FAKE_SRIS)}
    if rng.random() < 0.6: op["size"] = rng.choice([0, 1, 5, 2**40, 2**64 - 1])
    if rng.random() < 0.7: op["time"] = str(rng.choice([0, 1, 1234567, 2**64, 2**100 + 17, 2**119]))
    if rng.random() < 0.5: op["meta"] = rand_meta(rng)
    if rng.random() < 0.3: op["raw"] = rand_bytes(rng, rng.randrange(0, 5)).hex()
    return op

def lookups(rng, keys, flavour, with_list=True, reads=False):
    out = []
    for k in keys:
        out.append({"op": rng.choice(["find", "metadata"]), "fl": pick_fl(rng, flavour), "key": kx(k)})
        if reads:
            out.append({"op": "read", "fl": pick_fl(rng, flavour), "key": kx(k)})
    if with_list:
        out.append({"op": "list"})
    return out

# ---------------------------------------------------------------- C05 / C10: histories
def hist_alphabet(flavour):
    al = []
    for k in ("a", "b"):
        for fl in FLS[flavour]:
            for v, size in ((FAKE_SRIS[0], 1), (FAKE_SRIS[1], 22222)):
                al.append({"op": "insert", "fl": fl, "key": kx(k), "sri": v, "size": size, "time": "7"})
            al.append({"op": "remove", "fl": fl, "key": kx(k)})
    return al

def exhaustive_histories(flavour, length):
    al = hist_alphabet(flavour)
    for L in range(1, length + 1):
        for combo in itertools.product(al, repeat=L):
            prog = []
            for op in combo:
                prog.append(dict(op))
                prog += [{"op": "find", "fl": FLS[flavour][-1], "key": kx("a")}, {"op": "find", "fl": "sync", "key": kx("b")}]
            prog.append({"op": "list"})
            yield prog

def random_history(rng, flavour, n, hostile=0.15, real_writes=0.3):
    keys = sorted({rand_key(rng, hostile) for _ in range(rng.randrange(2, 6))})
    prog = []
    for _ in range(n):
        k = rng.choice(keys)
        fl = pick_fl(rng, flavour)
        r = rng.random()
        if r < 0.25:
            prog.append({"op": rng.choice(["remove", "delete"]), "fl": fl, "key": kx(k)})
        elif r < 0.25 + real_writes:
            prog.append({"op": "write", "fl": fl, "key": kx(k), "data": rand_bytes(rng, rng.choice([0, 1, 3, 40])).hex(),
                         "algo": rng.choice(hashes.ALGOS)})
        else:
            prog.append(rand_insert(rng, k, fl))
        if rng.random() < 0.5:
            prog += lookups(rng, [rng.choice(keys)], flavour, with_list=rng.random() < 0.3, reads=False)
    prog += lookups(rng, keys, flavour, with_list=True, reads=True)
    return prog

# ---------------------------------------------------------------- C06: index damage
def record(key, sri, time=5, size=1, meta=None, raw=None):
    return ref.make_record(key, sri, time, size, meta, raw)

def damage_programs(rng, flavour, n_hist, exhaustive_cuts=False):
    """histories over one bucket, then the bucket bytes are damaged in a chosen way, then lookups through
    sync and async, then further appends and lookups again"""
    for _ in range(n_hist):
        keys = [rng.choice(SMALL_KEYS + ["ék", "k\U0001F600"])]
        nrec = rng.randrange(2, 6)
        recs = []
        for i in range(nrec):
            if rng.random() < 0.2:
                recs.append(record(keys[0], None, time=i))
            else:
                recs.append(record(keys[0], rng.choice(FAKE_SRIS), time=i, size=rng.randrange(0, 1000),
                                   meta=rng.choice(METAS)))
        # foreign-key record in the same bucket
        if rng.random() < 0.4:
            recs.insert(rng.randrange(0, len(recs) + 1), record("foreign", FAKE_SRIS[2], time=99))
        loc = ref.loc_c(ref.bucket_rel(keys[0].encode()))
        good = b"".join(recs)
        variants = []
        if exhaustive_cuts:
            j = rng.randrange(0, len(recs))
            start = sum(len(r) for r in recs[:j])
            for cut in range(0, len(recs[j]) + 1):
                variants.append(good[:start] + recs[j][:cut] + b"".join(recs[j + 1:]))
        for _ in range(4):
            variants.append(mutate_bucket(rng, recs))
        for v in variants:
            prog = [{"op": "damage", "kind": "mkdir", "loc": loc.rsplit("/", 1)[0]},
                    {"op": "damage", "kind": "set", "loc": loc, "data": v.hex()}]
            prog += lookups(rng, keys + ["foreign"], flavour, with_list=True)
            prog += [{"op": "find", "fl": fl, "key": kx(keys[0])} for fl in FLS[flavour]]
            # further appends through the API, then look again
            prog.append(rand_insert(rng, keys[0], pick_fl(rng, flavour)))
            prog += [{"op": "find", "fl": fl, "key": kx(keys[0])} for fl in FLS[flavour]]
            prog.append({"op": "list"})
            yield prog

GARBAGE_LINES = [b"", b"\x00\x00", b"\xff\xfe", b"\xc3", b"not a record", b"\r", b"a\tb\tc", b"\t", b"abc\t{}",
                 b"\xe2\x82", b"\xed\xa0\x80", b"{\"key\":1}"]

def mutate_bucket(rng, recs):
    recs = list(recs)
    r = rng.random()
    j = rng.randrange(0, len(recs))
    if r < 0.2:       # bit flip
        b = bytearray(recs[j]); p = rng.randrange(0, len(b)); b[p] ^= 1 << rng.randrange(0, 8); recs[j] = bytes(b)
    elif r < 0.35:    # truncate one record
        recs[j] = recs[j][:rng.randrange(0, len(recs[j]))]
    elif r < 0.55:    # garbage line inserted
        recs.insert(j, b"\n" + rng.choice(GARBAGE_LINES))
    elif r < 0.65:    # destroy the separating newline
        recs[j] = recs[j][1:]
    elif r < 0.75:    # duplicate / reorder fragments
        recs.insert(rng.randrange(0, len(recs) + 1), recs[j][: rng.randrange(1, len(recs[j]))])
    elif r < 0.85:    # overwrite a span with random bytes
        b = bytearray(recs[j]); p = rng.randrange(0, len(b)); q = min(len(b), p + rng.randrange(1, 8))
        b[p:q] = rand_bytes(rng, q - p); recs[j] = bytes(b)
    elif r < 0.92:    # CR games
        recs[j] = recs[j] + rng.choice([b"\r", b"\r\r", b"\r\n"])
    else:             # trailing newline / leading junk
        recs.append(rng.choice([b"\n", b"\n\n", b"junk"]))
    return b"".join(recs)
