"""Generators.  Every random choice derives from one `random.Random(seed)`; each suite yields
(program, flavours) pairs, a program being a list of op dicts (see ops.py)."""
import itertools, json, random
from . import hashes, ref

def kx(s) -> str:
    return (s if isinstance(s, bytes) else s.encode()).hex()

SMALL_KEYS = ["a", "b", "k1", "key two"]
HOSTILE_KEYS = ["", "x" * 4096, "tab\there", "nl\nhere", 'q"uote\\', "nul\x00byte", "../../etc/passwd", "/abs/path",
                "CaSe", "case", "é", "é", "\U0001F600", "a\rb", " lead", "trail ", "\x7f\x1f",
                "line\u2028sep", "para\u2029sep", "next\u0085line"]
FAKE_SRIS = [hashes.sri("sha256", b"v1"), hashes.sri("sha256", b"v2"), hashes.sri("sha1", b"v1"),
             hashes.sri("sha512", b"v3"), hashes.sri("xxh3", b"v4"), hashes.sri("sha384", b"v5")]
METAS = [None, True, 0, -1, 18446744073709551615, -9223372036854775808, "s", "q\"\\\n\t\u0001é\U0001F600", [], {},
         [1, [2, [3, []]], {"a": None}], {"b": 1, "a": {"z": [True, False, None], "y": " "}, "": "empty key"}]
FLS = {"sync": ["sync"], "astd": ["sync", "async"], "tok": ["sync", "async"]}

def pick_fl(rng, flavour):
    return rng.choice(FLS[flavour])

def rand_bytes(rng, n):
    return bytes(rng.getrandbits(8) for _ in range(n))

def rand_key(rng, hostile=0.2):
    if rng.random() < hostile:
        return rng.choice(HOSTILE_KEYS)
    return rng.choice(SMALL_KEYS)

def rand_meta(rng, depth=0):
    r = rng.random()
    if depth > 3 or r < 0.5:
        return rng.choice([None, True, False, rng.randrange(-5, 100), rng.randrange(-2**63, 2**64),
                           "".join(rng.choice("ab \"\\\n\t\x01é中\U0001F600/\u2028\u2029\u0085") for _ in range(rng.randrange(0, 6)))])
    if r < 0.75:
        return [rand_meta(rng, depth + 1) for _ in range(rng.randrange(0, 4))]
    return {"".join(rng.choice("abc\"\né") for _ in range(rng.randrange(0, 3))): rand_meta(rng, depth + 1)
            for _ in range(rng.randrange(0, 4))}

def rand_insert(rng, key, fl):
    op = {"op": "insert", "fl": fl, "key": kx(key), "sri": rng.choice(FAKE_SRIS)}
    if rng.random() < 0.6: op["size"] = rng.choice([0, 1, 5, 2**40, 2**64 - 1])
    if rng.random() < 0.7: op["time"] = str(rng.choice([0, 1, 1234567, 2**64, 2**100 + 17, 2**119]))
    if rng.random() < 0.5: op["meta"] = rand_meta(rng)
    if rng.random() < 0.3: op["raw"] = rand_bytes(rng, rng.randrange(0, 5)).hex()
    return op

def lookups(rng, keys, flavour, with_list=True, reads=False):
    out = []
    for k in keys:
        out.append({"op": rng.choice(["find", "metadata"]), "fl": pick_fl(rng, flavour), "key": kx(k)})
        if reads:
            out.append({"op": "read", "fl": pick_fl(rng, flavour), "key": kx(k)})
    if with_list:
        out.append({"op": "list"})
    return out

# ---------------------------------------------------------------- C05 / C10: histories
def hist_alphabet(flavour):
    al = []
    for k in ("a", "b"):
        for fl in FLS[flavour]:
            for v, size in ((FAKE_SRIS[0], 1), (FAKE_SRIS[1], 22222)):
                al.append({"op": "insert", "fl": fl, "key": kx(k), "sri": v, "size": size, "time": "7"})
            al.append({"op": "remove", "fl": fl, "key": kx(k)})
    return al

def exhaustive_histories(flavour, length):
    al = hist_alphabet(flavour)
    for L in range(1, length + 1):
        for combo in itertools.product(al, repeat=L):
            prog = []
            for op in combo:
                prog.append(dict(op))
                prog += [{"op": "find", "fl": FLS[flavour][-1], "key": kx("a")}, {"op": "find", "fl": "sync", "key": kx("b")}]
            prog.append({"op": "list"})
            yield prog

def random_history(rng, flavour, n, hostile=0.15, real_writes=0.3):
    keys = sorted({rand_key(rng, hostile) for _ in range(rng.randrange(2, 6))})
    prog = []
    for _ in range(n):
        k = rng.choice(keys)
        fl = pick_fl(rng, flavour)
        r = rng.random()
        if r < 0.25:
            prog.append({"op": rng.choice(["remove", "delete"]), "fl": fl, "key": kx(k)})
        elif r < 0.25 + real_writes:
            prog.append({"op": "write", "fl": fl, "key": kx(k), "data": rand_bytes(rng, rng.choice([0, 1, 3, 40])).hex(),
                         "algo": rng.choice(hashes.ALGOS)})
        else:
            prog.append(rand_insert(rng, k, fl))
        if rng.random() < 0.5:
            prog += lookups(rng, [rng.choice(keys)], flavour, with_list=rng.random() < 0.3, reads=False)
    prog += lookups(rng, keys, flavour, with_list=True, reads=True)
    return prog

# ---------------------------------------------------------------- C06: index damage
def record(key, sri, time=5, size=1, meta=None, raw=None):
    return ref.make_record(key, sri, time, size, meta, raw)

def damage_programs(rng, flavour, n_hist, exhaustive_cuts=False):
    """histories over one bucket, then the bucket bytes are damaged in a chosen way, then lookups through
    sync and async, then further appends and lookups again"""
    for _ in range(n_hist):
        keys = [rng.choice(SMALL_KEYS + ["ék", "k\U0001F600"]) if rng.random() < 0.6 else rng.choice(["ék", "k\U0001F600", "ключ", "\u20ac"])]
        nrec = rng.randrange(2, 6)
        recs = []
        for i in range(nrec):
            if rng.random() < 0.2:
                recs.append(record(keys[0], None, time=i))
            else:
                recs.append(record(keys[0], rng.choice(FAKE_SRIS), time=i, size=rng.randrange(0, 1000),
                                   meta=rng.choice(METAS)))
        # foreign-key record in the same bucket
        if rng.random() < 0.4:
            recs.insert(rng.randrange(0, len(recs) + 1), record("foreign", FAKE_SRIS[2], time=99))
        loc = ref.loc_c(ref.bucket_rel(keys[0].encode()))
        good = b"".join(recs)
        variants = []
        if exhaustive_cuts:
            j = rng.randrange(0, len(recs))
            start = sum(len(r) for r in recs[:j])
            for cut in range(0, len(recs[j]) + 1):
                variants.append(good[:start] + recs[j][:cut] + b"".join(recs[j + 1:]))
            # the beginning of the record never reached the disk (every cut through checksum, separator and key)
            for cut in range(1, min(90, len(recs[j]) - 1)):
                variants.append(good[:start] + b"\n" + recs[j][1 + cut:] + b"".join(recs[j + 1:]))
        for _ in range(4):
            variants.append(mutate_bucket(rng, recs))
        for v in variants:
            prog = [{"op": "damage", "kind": "mkdir", "loc": loc.rsplit("/", 1)[0]},
                    {"op": "damage", "kind": "set", "loc": loc, "data": v.hex()}]
            prog += lookups(rng, keys + ["foreign"], flavour, with_list=True)
            prog += [{"op": "find", "fl": fl, "key": kx(keys[0])} for fl in FLS[flavour]]
            # further appends through the API, then look again
            prog.append(rand_insert(rng, keys[0], pick_fl(rng, flavour)))
            prog += [{"op": "find", "fl": fl, "key": kx(keys[0])} for fl in FLS[flavour]]
            prog.append({"op": "list"})
            yield prog

GARBAGE_LINES = [b"", b"\x00\x00", b"\xff\xfe", b"\xc3", b"not a record", b"\r", b"a\tb\tc", b"\t", b"abc\t{}",
                 b"\xe2\x82", b"\xed\xa0\x80", b"{\"key\":1}"]

def mutate_bucket(rng, recs):
    recs = list(recs)
    r = rng.random()
    j = rng.randrange(0, len(recs))
    if r < 0.2:       # bit flip
        b = bytearray(recs[j]); p = rng.randrange(0, len(b)); b[p] ^= 1 << rng.randrange(0, 8); recs[j] = bytes(b)
    elif r < 0.35:    # truncate one record
        recs[j] = recs[j][:rng.randrange(0, len(recs[j]))]
    elif r < 0.55:    # garbage line inserted
        recs.insert(j, b"\n" + rng.choice(GARBAGE_LINES))
    elif r < 0.65:    # destroy the separating newline
        recs[j] = recs[j][1:]
    elif r < 0.75:    # duplicate / reorder fragments
        recs.insert(rng.randrange(0, len(recs) + 1), recs[j][: rng.randrange(1, len(recs[j]))])
    elif r < 0.85:    # overwrite a span with random bytes
        b = bytearray(recs[j]); p = rng.randrange(0, len(b)); q = min(len(b), p + rng.randrange(1, 8))
        b[p:q] = rand_bytes(rng, q - p); recs[j] = bytes(b)
    elif r < 0.92:    # CR games
        recs[j] = recs[j] + rng.choice([b"\r", b"\r\r", b"\r\n"])
    elif r < 0.96:    # the front of one record is missing
        recs[j] = b"\n" + recs[j][1 + rng.randrange(1, min(90, len(recs[j]) - 1)):]
    else:             # trailing newline / leading junk
        recs.append(rng.choice([b"\n", b"\n\n", b"junk"]))
    return b"".join(recs)

# ---------------------------------------------------------------- general API programs
SIZES_SMALL = [0, 1, 2, 3, 7, 64, 100, 1000]
SIZES_MED = [16383, 16384, 16385, 70000]
SIZES_BIG = [1048575, 1048576, 1048577, 3 * 1048576 + 5]

def rand_data(rng, big=0.0, med=0.1):
    r = rng.random()
    if r < big:
        n = rng.choice(SIZES_BIG)
        seed = rand_bytes(rng, 16)
        return (seed * (n // 16 + 1))[:n]
    if r < big + med:
        n = rng.choice(SIZES_MED)
        seed = rand_bytes(rng, 32)
        return (seed * (n // 32 + 1))[:n]
    return rand_bytes(rng, rng.choice(SIZES_SMALL))

def chunkings(rng, data):
    """split data into chunks: whole, single bytes (small data), decreasing, with empty chunks, random"""
    n = len(data)
    r = rng.random()
    if n == 0:
        return rng.choice([[], [b""], [b"", b""]])
    if r < 0.25:
        return [data]
    if r < 0.4 and n <= 64:
        return [data[i:i + 1] for i in range(n)]
    cuts = sorted({rng.randrange(0, n + 1) for _ in range(rng.randrange(1, 5))})
    parts, prev = [], 0
    for c in cuts + [n]:
        parts.append(data[prev:c]); prev = c
    if rng.random() < 0.3:
        parts.insert(rng.randrange(0, len(parts) + 1), b"")
    if rng.random() < 0.2:
        parts.sort(key=len, reverse=True)
        # re-split so that concatenation is still data
        out, pos = [], 0
        for p in parts:
            out.append(data[pos:pos + len(p)]); pos += len(p)
        parts = out
    return parts

class ProgBuilder:
    """tracks what the generator knows (keys written, addresses stored, handles) so that later ops are
    mostly meaningful"""
    def __init__(self, rng, flavour, hostile=0.15):
        self.rng, self.flavour, self.hostile = rng, flavour, hostile
        self.prog, self.keys, self.addrs, self.datas = [], [], [], []
        self.nw = self.nr = self.nx = 0

    def fl(self):
        return pick_fl(self.rng, self.flavour)

    def key(self, new=0.4):
        if self.keys and self.rng.random() > new:
            return self.rng.choice(self.keys)
        k = rand_key(self.rng, self.hostile)
        return k

    def add(self, op):
        self.prog.append(op)

    def note_write(self, key, data, algo):
        if key is not None and key not in self.keys:
            self.keys.append(key)
        self.addrs.append(hashes.sri(algo, data))
        self.datas.append(data)

    def data(self, big=0.0):
        if self.datas and self.rng.random() < 0.3:
            return self.rng.choice(self.datas)          # re-write equal data (dedup, C16)
        return rand_data(self.rng, big=big)

    def op_write(self, big=0.0):
        rng = self.rng
        key, data, algo = self.key(), self.data(big), rng.choice(hashes.ALGOS)
        op = {"op": "write", "fl": self.fl(), "key": kx(key), "data": data.hex()}
        if algo != "sha256" or rng.random() < 0.5:
            op["algo"] = algo
        else:
            algo = "sha256"
        self.add(op); self.note_write(key, data, algo)

    def op_write_hash(self, big=0.0):
        rng = self.rng
        data, algo = self.data(big), rng.choice(hashes.ALGOS)
        self.add({"op": "write_hash", "fl": self.fl(), "data": data.hex(), "algo": algo})
        self.note_write(None, data, algo)

    def op_stream(self, big=0.0, size_mode=None, sri_mode=None, end="commit", keyed=None):
        rng = self.rng
        data = self.data(big)
        algo = rng.choice(hashes.ALGOS)
        keyed = rng.random() < 0.7 if keyed is None else keyed
        key = self.key() if keyed else None
        self.nw += 1
        w = self.nw
        op = {"op": "open", "fl": self.fl(), "w": w, "algo": algo}
        if rng.random() < 0.2:
            # no algorithm option: the writer hashes with sha256 whatever integrity is declared
            del op["algo"]; algo = "sha256"
        if key is not None:
            op["key"] = kx(key)
        size_mode = size_mode or rng.choice(["none", "none", "ok", "ok", "less", "more"])
        if size_mode == "ok": op["size"] = len(data)
        elif size_mode == "less": op["size"] = max(0, len(data) - rng.choice([1, 1, 2, 100]))
        elif size_mode == "more": op["size"] = len(data) + rng.choice([1, 1, 5, 1000, 2000000])
        if size_mode == "less" and op["size"] == len(data): size_mode = "ok"
        sri_mode = sri_mode or rng.choice(["none", "none", "none", "ok", "wrong", "other", "multi_ok", "multi_wrong"])
        other = rng.choice([a for a in hashes.ALGOS if a != algo])
        if sri_mode == "ok": op["sri"] = hashes.sri(algo, data)
        elif sri_mode == "wrong": op["sri"] = hashes.sri(algo, data + b"!")
        elif sri_mode == "other": op["sri"] = hashes.sri(other, data)
        elif sri_mode == "multi_ok": op["sri"] = hashes.sri(other, data) + " " + hashes.sri(algo, data)
        elif sri_mode == "multi_wrong": op["sri"] = hashes.sri(other, data) + " " + hashes.sri(algo, data + b"?")
        if rng.random() < 0.3: op["time"] = str(rng.choice([0, 5, 2**64 + 3, 2**119 + 1]))
        if rng.random() < 0.3: op["meta"] = rand_meta(rng)
        if rng.random() < 0.2: op["raw"] = rand_bytes(rng, rng.randrange(0, 6)).hex()
        self.add(op)
        chunks = chunkings(rng, data)
        ncut = len(chunks)
        if end == "drop" and rng.random() < 0.6:
            ncut = rng.randrange(0, len(chunks) + 1)
        for c in chunks[:ncut]:
            self.add({"op": "wchunk", "w": w, "data": c.hex(), "mode": rng.choice(["write_all", "write"])})
        if end == "commit":
            self.add({"op": "commit", "w": w})
            good = size_mode in ("none", "ok") and sri_mode in ("none", "ok", "multi_ok")
            # the content is published under its address even when the commit is rejected afterwards
            self.addrs.append(hashes.sri(algo, data)); self.datas.append(data)
            if good and key is not None and key not in self.keys:
                self.keys.append(key)
        elif end == "drop":
            self.add({"op": "drop", "w": w})
        # "leave": handle stays open

    def some_key(self):
        return self.rng.choice(self.keys) if self.keys and self.rng.random() < 0.85 else rand_key(self.rng, self.hostile)

    def some_addr(self):
        if self.addrs and self.rng.random() < 0.85:
            return self.rng.choice(self.addrs)
        return hashes.sri(self.rng.choice(hashes.ALGOS), rand_bytes(self.rng, 3))

    def op_lookup(self):
        r = self.rng.random()
        if r < 0.35:
            self.add({"op": "read", "fl": self.fl(), "key": kx(self.some_key())})
        elif r < 0.55:
            self.add({"op": "read_hash", "fl": self.fl(), "sri": self.some_addr()})
        elif r < 0.8:
            self.add({"op": self.rng.choice(["metadata", "find"]), "fl": self.fl(), "key": kx(self.some_key())})
        elif r < 0.9:
            self.add({"op": "exists", "fl": self.fl(), "sri": self.some_addr()})
        else:
            self.add({"op": "list"})

    def op_reader(self):
        rng = self.rng
        self.nr += 1
        r = self.nr
        if rng.random() < 0.5:
            self.add({"op": "ropen", "fl": self.fl(), "r": r, "key": kx(self.some_key())})
        else:
            self.add({"op": "ropen_hash", "fl": self.fl(), "r": r, "sri": self.some_addr()})
        for _ in range(rng.randrange(0, 4)):
            self.add({"op": "rchunk", "r": r, "n": rng.choice([1, 2, 5, 1024, 16384, 100000])})
        if rng.random() < 0.7:
            self.add({"op": "rall", "r": r})
        self.add({"op": rng.choice(["rcheck", "rcheck", "rcheck", "rdrop"]), "r": r})

    def op_extract(self, kinds=("copy", "hard_link", "reflink")):
        rng = self.rng
        kind = rng.choice(kinds)
        by = rng.choice(["key", "hash"])
        checked = rng.random() < 0.6
        fl = self.fl()
        if fl == "async":
            if kind == "hard_link" and not (by == "key" and checked):
                fl = "sync"
            if kind == "reflink" and by == "hash" and not checked:
                fl = "sync"
        self.nx += 1
        to = f"out{self.nx}" if rng.random() < 0.8 or self.nx < 2 else f"out{rng.randrange(1, self.nx)}"
        # a copy ONTO an existing hard link would write through the shared inode into the cache itself (and into
        # every other link): inode aliasing is outside the model and outside every property, so it is not generated
        if kind == "copy" and to in getattr(self, "hl_dests", set()):
            to = f"out{self.nx}"
        if kind == "hard_link":
            self.hl_dests = getattr(self, "hl_dests", set()) | {to}
        op = {"op": kind, "fl": fl, "by": by, "checked": checked, "to": to}
        if by == "key": op["key"] = kx(self.some_key())
        else: op["sri"] = self.some_addr()
        self.add(op)

    def op_remove(self, allow_clear=0.03):
        rng = self.rng
        r = rng.random()
        if r < allow_clear:
            self.add({"op": "clear", "fl": self.fl()}); self.keys, self.addrs, self.datas = [], [], []
        elif r < 0.45:
            self.add({"op": rng.choice(["remove", "delete"]), "fl": self.fl(), "key": kx(self.some_key())})
        elif r < 0.6:
            self.add({"op": "remove_opts", "fl": self.fl(), "key": kx(self.some_key()), "fully": False})
        elif r < 0.7:
            self.add({"op": "remove_hash", "fl": self.fl(), "sri": self.some_addr()})
        elif r < 0.8:
            # an integrity with several hashes names one address; the content under the other hashes stays
            a, b = self.some_addr(), self.some_addr()
            self.add({"op": "remove_hash", "fl": self.fl(), "sri": a if a.split("-")[0] == b.split("-")[0] else a + " " + b})
            for x in (a, b):
                self.add({"op": "read_hash", "fl": self.fl(), "sri": x})
                self.add({"op": "exists", "fl": self.fl(), "sri": x})
        else:
            self.add({"op": "remove_opts", "fl": self.fl(), "key": kx(self.some_key()), "fully": True})

    def op_damage_content(self):
        """damage one stored content file (C01 / C18 classes)"""
        rng = self.rng
        if not self.addrs:
            return
        i = rng.randrange(0, len(self.addrs))
        sri, data = self.addrs[i], self.datas[i]
        loc = ref.loc_c(ref.content_rel(sri))
        r = rng.random()
        if r < 0.3 and len(data) > 0:
            b = bytearray(data); p = rng.randrange(0, len(b)); b[p] ^= 1 << rng.randrange(0, 8); new = bytes(b)
        elif r < 0.45:
            new = data[: rng.randrange(0, len(data))] if data else b"x"
        elif r < 0.55:
            new = data + rand_bytes(rng, rng.randrange(1, 4))
        elif r < 0.65:
            new = b""
            if data == b"": new = b"\x00"
        elif r < 0.8 and len(self.datas) > 1:
            new = rng.choice(self.datas)
        elif r < 0.9:
            self.add({"op": "damage", "kind": "del", "loc": loc}); return
        else:
            # symlink substitution: a file of the caller with other bytes
            name = f"sub{len(self.prog)}"
            self.add({"op": "damage", "kind": "set", "loc": "e:" + name, "data": (data + b"#").hex()})
            self.add({"op": "damage", "kind": "symlink", "loc": loc, "target": "a:" + name}); return
        self.add({"op": "damage", "kind": "set", "loc": loc, "data": new.hex()})

    def op_restore(self):
        """the bytes under a stored address are damaged (in place, as through a hard-linked copy, or replaced), then the
        same data is written again: the write succeeds with the same address and everything reads back (C02 / C16)"""
        rng = self.rng
        if not self.addrs:
            return
        i = rng.randrange(0, len(self.addrs))
        sri, data = self.addrs[i], self.datas[i]
        algo = sri.split("-")[0]
        loc = ref.loc_c(ref.content_rel(sri))
        r = rng.random()
        if r < 0.4 and data:
            b = bytearray(data); p = rng.randrange(0, len(b)); b[p] ^= 1 << rng.randrange(0, 8)
            self.add({"op": "damage", "kind": "rot", "loc": loc, "data": bytes(b).hex()})
        elif r < 0.7:
            self.add({"op": "damage", "kind": "set", "loc": loc, "data": (data[: len(data) // 2] + b"?").hex()})
        else:
            self.add({"op": "damage", "kind": "set", "loc": loc, "data": b"".hex() if data else b"x".hex()})
        key = self.key()
        q = rng.random()
        if q < 0.5:
            self.add({"op": "write", "fl": self.fl(), "key": kx(key), "data": data.hex(), "algo": algo}); self.note_write(key, data, algo)
        elif q < 0.7:
            self.add({"op": "write_hash", "fl": self.fl(), "data": data.hex(), "algo": algo}); self.note_write(None, data, algo)
        else:
            self.nw += 1; w = self.nw
            self.add({"op": "open", "fl": self.fl(), "w": w, "key": kx(key), "algo": algo})
            for c in chunkings(rng, data):
                self.add({"op": "wchunk", "w": w, "data": c.hex(), "mode": "write_all"})
            self.add({"op": "commit", "w": w}); self.note_write(key, data, algo)
        self.add({"op": "read_hash", "fl": self.fl(), "sri": sri})
        if self.keys:
            self.add({"op": "read", "fl": self.fl(), "key": kx(rng.choice(self.keys))})

    def final_lookups(self):
        for k in self.keys[:8]:
            self.add({"op": "metadata", "fl": self.fl(), "key": kx(k)})
            self.add({"op": "read", "fl": self.fl(), "key": kx(k)})
        for a in self.addrs[-4:]:
            self.add({"op": "read_hash", "fl": self.fl(), "sri": a})
        self.add({"op": "list"})

def api_program(rng, flavour, n, weights, big=0.0, hostile=0.15, stream_kw=None):
    b = ProgBuilder(rng, flavour, hostile)
    names = list(weights)
    ws = [weights[k] for k in names]
    for _ in range(n):
        k = rng.choices(names, ws)[0]
        if k == "write": b.op_write(big)
        elif k == "write_hash": b.op_write_hash(big)
        elif k == "stream": b.op_stream(big, **(stream_kw or {}))
        elif k == "stream_drop": b.op_stream(big, end="drop")
        elif k == "stream_leave": b.op_stream(big, end="leave")
        elif k == "lookup": b.op_lookup()
        elif k == "reader": b.op_reader()
        elif k == "extract": b.op_extract()
        elif k == "remove": b.op_remove()
        elif k == "damage_content": b.op_damage_content()
        elif k == "insert": b.add(rand_insert(rng, b.key(), b.fl()))
    b.final_lookups()
    return b.prog

def relist_programs(rng, flavour, n):
    """C10: list, then the key's bucket file is deleted (full removal / clear) and re-created with a record of exactly the
    same length (same key, time and size, other bytes), then list again in the same process; tombstone + rewrite too"""
    for _ in range(n):
        key = rand_key(rng, 0.2)
        algo = rng.choice(hashes.ALGOS)
        m = rng.randrange(1, 40)
        d1, d2 = rand_bytes(rng, m), rand_bytes(rng, m)
        t = str(rng.choice([7, 1700000000123]))
        other = rand_key(rng, 0.0) + "-o"
        def wr(d, fl):
            return [{"op": "open", "fl": fl, "w": 1, "key": kx(key), "algo": algo, "time": t}, {"op": "wchunk", "w": 1, "data": d.hex(), "mode": "write_all"}, {"op": "commit", "w": 1}]
        prog = [{"op": "write", "fl": pick_fl(rng, flavour), "key": kx(other), "data": rand_bytes(rng, 5).hex()}]
        prog += wr(d1, pick_fl(rng, flavour))
        prog += [{"op": "list"}, {"op": "metadata", "fl": pick_fl(rng, flavour), "key": kx(key)}]
        r = rng.random()
        if r < 0.45: prog.append({"op": "remove_opts", "fl": pick_fl(rng, flavour), "key": kx(key), "fully": True})
        elif r < 0.8: prog.append({"op": "clear", "fl": pick_fl(rng, flavour)})
        else: prog.append({"op": "remove", "fl": pick_fl(rng, flavour), "key": kx(key)})
        if rng.random() < 0.3: prog.append({"op": "list"})
        prog += wr(d2, pick_fl(rng, flavour))
        prog += [{"op": "list"}, {"op": "metadata", "fl": pick_fl(rng, flavour), "key": kx(key)}, {"op": "read", "fl": pick_fl(rng, flavour), "key": kx(key)}]
        yield prog

# ---------------------------------------------------------------- C05: foreign keys sharing a bucket file
def foreign_bucket_programs(rng, flavour, n):
    """the bucket of key K is pre-filled (reference writer) with an interleaving of records of K and of foreign
    keys — as if their SHA-1 collided — including foreign tombstones after K's last write; then lookups and
    further API writes/removals of K"""
    for _ in range(n):
        K = rng.choice(SMALL_KEYS + ["ék"])
        foreign = ["F1", "F2", K + "x", "x" + K]
        recs = []
        for i in range(rng.randrange(2, 9)):
            who = K if rng.random() < 0.45 else rng.choice(foreign)
            if rng.random() < 0.35:
                recs.append(record(who, None, time=i))
            else:
                recs.append(record(who, rng.choice(FAKE_SRIS), time=i, size=rng.choice([1, 22, 333333]), meta=rng.choice(METAS)))
        loc = ref.loc_c(ref.bucket_rel(K.encode()))
        prog = [{"op": "damage", "kind": "mkdir", "loc": loc.rsplit("/", 1)[0]},
                {"op": "damage", "kind": "set", "loc": loc, "data": b"".join(recs).hex()}]
        prog += [{"op": "find", "fl": fl, "key": kx(K)} for fl in FLS[flavour]]
        prog += [{"op": "find", "fl": pick_fl(rng, flavour), "key": kx(f)} for f in foreign[:2]]
        for _ in range(rng.randrange(1, 4)):
            r = rng.random()
            if r < 0.4:
                prog.append(rand_insert(rng, K, pick_fl(rng, flavour)))
            elif r < 0.7:
                prog.append({"op": "remove", "fl": pick_fl(rng, flavour), "key": kx(K)})
            else:
                prog.append({"op": "write", "fl": pick_fl(rng, flavour), "key": kx(K), "data": rand_bytes(rng, 5).hex()})
            prog += [{"op": "find", "fl": fl, "key": kx(K)} for fl in FLS[flavour]]
        prog.append({"op": "read", "fl": pick_fl(rng, flavour), "key": kx(K)})
        yield prog

# ---------------------------------------------------------------- C06: every single-bit flip of a region
def bitflip_programs(rng, flavour, n_hist, region="head"):
    """small buckets; every single-bit flip of a region of the newest record (head = newline + checksum + tab +
    first JSON bytes; all = the whole record) and of a tombstone; lookups through both API families + listing"""
    for _ in range(n_hist):
        K = rng.choice(SMALL_KEYS + ["k\U0001F600"])
        r1 = record(K, rng.choice(FAKE_SRIS), time=1, size=11)
        last = record(K, None, time=2) if rng.random() < 0.4 else record(K, rng.choice(FAKE_SRIS[1:]), time=2, size=22, meta=rng.choice(METAS))
        loc = ref.loc_c(ref.bucket_rel(K.encode()))
        span = range(0, min(len(last), 80)) if region == "head" else range(0, len(last))
        for p in span:
            for bit in range(8):
                b = bytearray(last); b[p] ^= 1 << bit
                prog = [{"op": "damage", "kind": "mkdir", "loc": loc.rsplit("/", 1)[0]},
                        {"op": "damage", "kind": "set", "loc": loc, "data": (r1 + bytes(b)).hex()}]
                prog += [{"op": "find", "fl": fl, "key": kx(K)} for fl in FLS[flavour]]
                prog.append({"op": "list"})
                yield prog

# ---------------------------------------------------------------- C11: metadata round trip
def meta_programs(rng, flavour, n):
    """several writes to the same key whose fields are drawn from small pools (so that successive records differ in
    exactly one field, repeat earlier values, ...), through streamed writers and index::insert; read back by
    metadata / find / list after every write; explicit times make bucket bytes comparable byte for byte"""
    for _ in range(n):
        key = rand_key(rng, 0.4)
        datas = [rand_bytes(rng, rng.choice([0, 3, 10])), rand_bytes(rng, 4)]
        times = [None, str(rng.choice([0, 7, 2**64, 2**128 - 1, 2**100 + 3])), "1234567"]
        metas = ["absent", rand_meta(rng), rand_meta(rng), None]
        raws = [None, rand_bytes(rng, rng.randrange(0, 5)).hex(), rand_bytes(rng, 3).hex(), "00ff"]
        prog, w = [], 0
        for _ in range(rng.randrange(2, 6)):
            data, algo = rng.choice(datas), rng.choice(["sha256", "sha256", "sha1", "sha512"])
            t, m, r = rng.choice(times), rng.choice(metas), rng.choice(raws)
            if rng.random() < 0.75:
                w += 1
                op = {"op": "open", "fl": pick_fl(rng, flavour), "w": w, "key": kx(key), "algo": algo}
                if rng.random() < 0.5: op["size"] = len(data)
                sm = rng.random()
                other = "sha1" if algo != "sha1" else "sha256"
                if sm < 0.2: op["sri"] = hashes.sri(algo, data)
                elif sm < 0.4: op["sri"] = hashes.sri(algo, data) + " " + hashes.sri(other, data)
                if t is not None: op["time"] = t
                if m != "absent": op["meta"] = m
                if r is not None: op["raw"] = r
                prog += [op, {"op": "wchunk", "w": w, "data": data.hex(), "mode": "write_all"}, {"op": "commit", "w": w}]
            else:
                op = {"op": "insert", "fl": pick_fl(rng, flavour), "key": kx(key), "sri": hashes.sri(algo, data)}
                if rng.random() < 0.6: op["size"] = rng.choice([0, len(data), 2**64 - 1])
                if t is not None: op["time"] = t
                if m != "absent": op["meta"] = m
                if r is not None: op["raw"] = r
                prog.append(op)
            prog.append({"op": rng.choice(["metadata", "find"]), "fl": pick_fl(rng, flavour), "key": kx(key)})
            if rng.random() < 0.5: prog.append({"op": "list"})
            prog.append({"op": "refcheck", "key": kx(key)})
        prog.append({"op": "list"})
        yield prog

# ---------------------------------------------------------------- C17: the reference implementation writes
def _spell(rng, obj):
    """a valid JSON spelling of obj as another implementation might produce it"""
    import json as J
    style = rng.randrange(0, 6)
    items = list(obj.items())
    if style == 1: rng.shuffle(items)
    if style == 2: items.insert(rng.randrange(0, len(items) + 1), ("extra_field", {"x": [1, None]}))
    if style == 5 and rng.random() < 0.5: items = [kv for kv in items if kv[0] != "raw_metadata" or kv[1] is not None]
    d = dict(items)
    if style == 3:
        return J.dumps(d, separators=(", ", ": "), ensure_ascii=False)
    if style == 4:
        return J.dumps(d, separators=(",", ":"), ensure_ascii=True)       # \uXXXX escapes, surrogate pairs
    if style == 5:
        return " " + J.dumps(d, separators=(" ,", " :"), ensure_ascii=False) + " "
    return J.dumps(d, separators=(",", ":"), ensure_ascii=False)

def ref_written_programs(rng, flavour, n):
    for _ in range(n):
        key = rng.choice(SMALL_KEYS + ["ék", "k\U0001F600", 'q"\\', "tab\t"])
        recs = []
        for i in range(rng.randrange(1, 5)):
            integ = None if rng.random() < 0.25 else rng.choice(FAKE_SRIS)
            obj = {"key": key, "integrity": integ, "time": rng.choice([i, 2**70 + i]), "size": rng.choice([0, 5, 2**40]),
                   "metadata": rng.choice(METAS), "raw_metadata": rng.choice([None, None, [0, 255, 7], []])}
            recs.append(ref.record_bytes(_spell(rng, obj).encode()))
        loc = ref.loc_c(ref.bucket_rel(key.encode()))
        prog = [{"op": "damage", "kind": "mkdir", "loc": loc.rsplit("/", 1)[0]},
                {"op": "damage", "kind": "set", "loc": loc, "data": b"".join(recs).hex()}]
        prog += [{"op": "find", "fl": fl, "key": kx(key)} for fl in FLS[flavour]]
        prog += [{"op": "refcheck", "key": kx(key)}, {"op": "list"}]
        # the library continues the file; the reference reader must follow
        prog.append(rand_insert(rng, key, pick_fl(rng, flavour)))
        prog += [{"op": "refcheck", "key": kx(key)}, {"op": "list"}]
        yield prog

# ---------------------------------------------------------------- C20: crafted states
ODD_INTEGRITIES = ["", " ", "sha256-", "sha256-@@@", "sha256-QQ==", "sha256-QUI=", "md5-abcd", "sha256", "sha1-deadbeef",
                   "sha256-AAAA sha999-x", "sha512-!", "sha256-QUJD-tail", "xxh3-QUJDRA==", "sha256-QUJ="]

def rand_integrity(rng):
    """integrity strings around the edge of what content_path can address"""
    import base64
    r = rng.random()
    if r < 0.4:
        return rng.choice(ODD_INTEGRITIES)
    algo = rng.choice(hashes.ALGOS)
    raw = rand_bytes(rng, rng.choice([0, 1, 2, 3, 4, 5, 20]))
    b = base64.b64encode(raw).decode()
    if r < 0.6:
        return f"{algo}-{b}"
    b = list(b) or ["A"]
    k = rng.randrange(0, len(b))
    m = rng.random()
    if m < 0.3: b[k] = rng.choice("ABab09+/=-_ .")            # substitute a symbol (non-canonical trailing bits, bad char)
    elif m < 0.5: b = b[:k]                                    # cut
    elif m < 0.7: b.insert(k, rng.choice("=A/"))
    elif m < 0.85: b = [c for c in b if c != "="]              # drop the padding
    else: b.append("=")
    return f"{algo}-{''.join(b)}"

def crafted_programs(rng, flavour, n):
    for _ in range(n):
        key = rng.choice(SMALL_KEYS)
        recs = [record(key, rng.choice(FAKE_SRIS), time=1, size=3)]
        r = rng.random()
        if r < 0.6:
            recs.append(record(key, rand_integrity(rng), time=2, size=4))
        elif r < 0.8:
            recs.append(ref.record_bytes(rng.choice([b"{}", b"[]", b"null", b"{\"key\":\"" + key.encode() + b"\"}",
                                                     b"[\"" + key.encode() + b"\",null,1,2,null,null]", b"[" * 200 + b"]" * 200])))
        loc = ref.loc_c(ref.bucket_rel(key.encode()))
        prog = [{"op": "damage", "kind": "mkdir", "loc": loc.rsplit("/", 1)[0]},
                {"op": "damage", "kind": "set", "loc": loc, "data": b"".join(recs).hex()}]
        if r >= 0.8:
            # directory / dangling symlink where a bucket or a content file should be
            what = rng.choice(["bucket_dir", "bucket_link", "content_dir", "content_link"])
            if what == "bucket_dir": prog[1] = {"op": "damage", "kind": "mkdir", "loc": loc}
            elif what == "bucket_link": prog[1] = {"op": "damage", "kind": "symlink", "loc": loc, "target": "d:" + b"nowhere".hex()}
            else:
                cl = ref.loc_c(ref.content_rel(FAKE_SRIS[0]))
                prog.append({"op": "damage", "kind": "mkdir", "loc": cl.rsplit("/", 1)[0]})
                prog.append({"op": "damage", "kind": "mkdir", "loc": cl} if what == "content_dir" else
                            {"op": "damage", "kind": "symlink", "loc": cl, "target": "d:" + b"../x".hex()})
        for fl in FLS[flavour]:
            prog += [{"op": "find", "fl": fl, "key": kx(key)}, {"op": "read", "fl": fl, "key": kx(key)}]
        prog += [{"op": "list"}, {"op": "read_hash", "fl": pick_fl(rng, flavour), "sri": FAKE_SRIS[0]},
                 {"op": "exists", "fl": pick_fl(rng, flavour), "sri": FAKE_SRIS[0]},
                 {"op": "copy", "fl": "sync", "by": "key", "checked": True, "key": kx(key), "to": "o1"},
                 {"op": "remove_opts", "fl": pick_fl(rng, flavour), "key": kx(key), "fully": True},
                 {"op": "write", "fl": pick_fl(rng, flavour), "key": kx(key), "data": "00"},
                 {"op": "read", "fl": pick_fl(rng, flavour), "key": kx(key)}]
        yield prog

# ---------------------------------------------------------------- C12: mixed-flavour programs
def mix_flavours(rng, prog, nbins=3):
    """Re-route the ops of a program to `nbins` harness processes (bin 0 = sync-only binary, 1 = async-std, 2 = tokio) sharing
    one cache directory.  Writer / reader handles stay in the process that opened them; every other op goes to a random
    process, through its sync or (if it has one) async entry point."""
    owner_w, owner_r, out = {}, {}, []
    for op in prog:
        op = dict(op)
        o = op["op"]
        if o in ("damage", "cmptree", "refcheck", "chdir"):
            out.append(op); continue
        if o == "open":
            b = rng.randrange(nbins); owner_w[op["w"]] = b
        elif o in ("wchunk", "commit", "drop"):
            b = owner_w.get(op["w"], 0)
        elif o in ("ropen", "ropen_hash"):
            b = rng.randrange(nbins); owner_r[op["r"]] = b
        elif o in ("rchunk", "rall", "rcheck", "rdrop"):
            b = owner_r.get(op["r"], 0)
        else:
            b = rng.randrange(nbins)
        if "fl" in op and b == 0:
            op["fl"] = "sync"          # the sync-only binary; every async entry point has a _sync twin (not conversely)
        op["bin"] = b
        out.append(op)
    return out


# ---------------------------------------------------------------- C19: link_to
def link_programs(rng, flavour, n):
    """targets of size 0 / small / > one 16 KiB read buffer in the caller's directory; one-shot links and linkers with
    options, partial reads before commit, relative and absolute paths; reads by key and by address; then the target is
    modified / emptied / removed / replaced and read again; addresses that already exist as regular content."""
    for i in range(n):
        prog, keys, sris = [], [], []
        targets = {}
        for t in ("t0", "t1", "t2"):
            d = rand_bytes(rng, rng.choice([0, 1, 5, 40, 17000, 33000]))
            targets[t] = d
            prog.append({"op": "damage", "kind": "set", "loc": "e:" + t, "data": d.hex()})
        h = 1
        for _ in range(rng.randrange(2, 6)):
            t = rng.choice(list(targets))
            d = targets[t]
            fl = pick_fl(rng, flavour)
            key = rand_key(rng, 0.2) if rng.random() < 0.75 else None
            algo = rng.choice(hashes.ALGOS)
            r = rng.random()
            if rng.random() < 0.25:
                # the address already exists as regular content
                prog.append({"op": "write_hash", "fl": pick_fl(rng, flavour), "data": d.hex(), "algo": "sha256" if r < 0.4 else algo})
            if r < 0.4:
                op = {"op": "link_to", "fl": fl, "target": t}
                if key is not None: op["key"] = kx(key)
                if rng.random() < 0.5: op["rel"] = True
                prog.append(op)
                sris.append(hashes.sri("sha256", d))
            else:
                op = {"op": "lopen", "fl": fl, "l": h, "target": t}
                if key is not None: op["key"] = kx(key)
                if rng.random() < 0.4: op["rel"] = True
                if rng.random() < 0.3:
                    op["plain"] = True; algo = "sha256"
                else:
                    op["algo"] = algo
                    q = rng.random()
                    if q < 0.3: op["size"] = len(d)
                    elif q < 0.5: op["size"] = rng.choice([0, len(d) + 1, max(0, len(d) - 1), 8, 16384])
                    q = rng.random()
                    if q < 0.25: op["sri"] = hashes.sri(algo, d)
                    elif q < 0.4: op["sri"] = hashes.sri(algo, d + b"x")
                    elif q < 0.5: op["sri"] = hashes.sri(rng.choice(hashes.ALGOS), d)
                    if rng.random() < 0.4: op["time"] = str(rng.choice([0, 7, 2**64 + 5]))
                    if rng.random() < 0.3: op["meta"] = rand_meta(rng)
                    if rng.random() < 0.2: op["raw"] = rand_bytes(rng, 3).hex()
                prog.append(op)
                for _ in range(rng.randrange(0, 4)):
                    prog.append({"op": "lchunk", "l": h, "n": rng.choice([0, 1, 8, 100, 16384, 40000])})
                moved = op.get("rel") and rng.random() < 0.5
                if moved:
                    # the caller changes its working directory between opening the linker on a relative path and committing it
                    prog.append({"op": "chdir", "to": rng.choice(["/", "/usr"])})
                prog.append({"op": "lcommit" if rng.random() < 0.85 else "ldrop", "l": h})
                if moved:
                    prog.append({"op": "chdir", "to": ""})
                sris.append(hashes.sri(algo, d))
                h += 1
            if key is not None: keys.append(key)
            if rng.random() < 0.6 and keys:
                k = rng.choice(keys)
                prog += [{"op": "read", "fl": pick_fl(rng, flavour), "key": kx(k)}, {"op": "metadata", "fl": pick_fl(rng, flavour), "key": kx(k)}]
        def all_reads():
            out = []
            for k in sorted(set(keys)):
                out += [{"op": "read", "fl": pick_fl(rng, flavour), "key": kx(k)}, {"op": "metadata", "fl": "sync", "key": kx(k)}]
            for sr in sorted(set(sris)):
                out += [{"op": "read_hash", "fl": pick_fl(rng, flavour), "sri": sr}, {"op": "exists", "fl": "sync", "sri": sr}]
            if keys:
                out.append({"op": "copy", "fl": pick_fl(rng, flavour), "by": "key", "checked": True, "key": kx(keys[0]), "to": "out1"})
            out.append({"op": "list"})
            return out
        prog += all_reads()
        prog.append({"op": "cmptree"})
        # the targets change after linking: reads must fail, never return other bytes
        for t in list(targets):
            r = rng.random()
            if r < 0.3:
                prog.append({"op": "damage", "kind": "set", "loc": "e:" + t, "data": (targets[t] + b"!").hex() if rng.random() < 0.5 else rand_bytes(rng, len(targets[t])).hex()})
            elif r < 0.5:
                prog.append({"op": "damage", "kind": "del", "loc": "e:" + t})
            elif r < 0.6:
                prog.append({"op": "damage", "kind": "set", "loc": "e:" + t, "data": ""})
        prog += all_reads()
        # a removed target comes back under another name with identical bytes and is linked again: the entry must read
        # back (a dangling link left by the first link must not be taken for existing content)
        if rng.random() < 0.6:
            t = rng.choice(list(targets))
            k2 = rand_key(rng, 0.1)
            prog += [{"op": "damage", "kind": "del", "loc": "e:" + t},
                     {"op": "damage", "kind": "set", "loc": "e:again", "data": targets[t].hex()},
                     {"op": "link_to", "fl": pick_fl(rng, flavour), "key": kx(k2), "target": "again"},
                     {"op": "read", "fl": pick_fl(rng, flavour), "key": kx(k2)},
                     {"op": "read_hash", "fl": pick_fl(rng, flavour), "sri": hashes.sri("sha256", targets[t])},
                     {"op": "cmptree"}]
        yield prog


def abandon_programs(rng, flavour, n):
    """cancelled writes (async writers only): a write is started, polled once and dropped — the blocking task still
    stores and hashes the chunk, the answer stays in the writer and is handed to a later write() if it fits.
    Sess.v OAbandon / OWrite1.  A drop never follows an abandon directly (when the temp file disappears is then a race)."""
    if flavour == "sync":
        return
    sizes = [0, 1, 2, 3, 5, 8, 8, 13, 4096, 70000]
    for _ in range(n):
        data_pool = [rand_bytes(rng, rng.choice(sizes)) for _ in range(4)]
        prog = []
        nwr = rng.randrange(1, 3)
        for w in range(1, nwr + 1):
            keyed = rng.random() < 0.6
            algo = rng.choice(hashes.ALGOS)
            op = {"op": "open", "fl": "async", "w": w, "algo": algo}
            if keyed:
                op["key"] = kx(rand_key(rng, 0.1)); op["time"] = str(rng.choice([5, 6, 2**64 + 3]))
            sm = rng.choice(["none", "none", "decl"])
            if sm == "decl":
                op["size"] = rng.choice([1, 8, 16, 64, 5000])
            prog.append(op)
            k = rng.randrange(1, 6)
            last_abandon = False
            for j in range(k):
                d = rng.choice(data_pool) if rng.random() < 0.7 else rand_bytes(rng, rng.choice(sizes[:8]))
                if rng.random() < 0.45:
                    prog.append({"op": "wabandon", "w": w, "data": d.hex()}); last_abandon = True
                else:
                    prog.append({"op": "wchunk", "w": w, "data": d.hex(), "mode": rng.choice(["write_all", "write_all", "write"])}); last_abandon = False
            end = rng.choice(["commit", "commit", "commit", "drop"])
            if end == "drop" and last_abandon:
                end = "commit"
            prog.append({"op": end, "w": w})
            if keyed:
                prog.append({"op": "read", "fl": rng.choice(["sync", "async"]), "key": op["key"]})
                prog.append({"op": "metadata", "fl": "sync", "key": op["key"]})
        prog.append({"op": "list"})
        yield prog


STRENGTH = ["sha512", "sha384", "sha256", "sha1"]          # the reference (npm cacache / ssri) picks the strongest

def ref_cache_programs(rng, flavour, n):
    """C17: a complete cache written by the reference implementation — index record plus content file; the integrity may
    list several hashes in any order, the content sits under the strongest algorithm (the reference's convention, and the
    library's) — then read through the library by key and by address."""
    for _ in range(n):
        key = rng.choice(SMALL_KEYS + ["ék", "k\U0001F600"])
        data = rand_bytes(rng, rng.choice([0, 1, 5, 40, 300]))
        algos = rng.sample(STRENGTH, rng.choice([1, 1, 2, 2, 3]))
        hs = [hashes.sri(a, data) for a in algos]
        order = list(hs); rng.shuffle(order)
        integ = " ".join(order)
        strongest = hashes.sri(min(algos, key=STRENGTH.index), data)
        obj = {"key": key, "integrity": integ, "time": rng.choice([7, 2**70 + 1]), "size": len(data),
               "metadata": rng.choice(METAS), "raw_metadata": None}
        bloc = ref.loc_c(ref.bucket_rel(key.encode()))
        cloc = ref.loc_c(ref.content_rel(strongest))
        prog = [{"op": "damage", "kind": "mkdir", "loc": bloc.rsplit("/", 1)[0]},
                {"op": "damage", "kind": "set", "loc": bloc, "data": ref.record_bytes(_spell(rng, obj).encode()).hex()},
                {"op": "damage", "kind": "mkdir", "loc": cloc.rsplit("/", 1)[0]},
                {"op": "damage", "kind": "set", "loc": cloc, "data": data.hex()}]
        for fl in FLS[flavour]:
            prog += [{"op": "find", "fl": fl, "key": kx(key)}, {"op": "read", "fl": fl, "key": kx(key)},
                     {"op": "read_hash", "fl": fl, "sri": integ}, {"op": "exists", "fl": fl, "sri": integ}]
        prog += [{"op": "copy", "fl": "sync", "by": "key", "checked": True, "key": kx(key), "to": "out"},
                 {"op": "ropen", "fl": pick_fl(rng, flavour), "r": 1, "key": kx(key)}, {"op": "rall", "r": 1}, {"op": "rcheck", "r": 1},
                 {"op": "refcheck", "key": kx(key)}, {"op": "list"}]
        # the library re-writes the same data under another key: same address, no second copy
        prog += [{"op": "write", "fl": pick_fl(rng, flavour), "key": kx(key + "2"), "data": data.hex(), "algo": min(algos, key=STRENGTH.index)},
                 {"op": "read", "fl": "sync", "key": kx(key)}, {"op": "refcheck", "key": kx(key + "2")}]
        yield prog


def rot_programs(rng, flavour, n):
    """C01 / C18: an entry is retrieved successfully through a checked entry point, THEN its content file rots in place
    (same inode, same length, same timestamps: a flipped bit, or the bytes of another entry of the same length), then it
    is retrieved again in the same process through every checked entry point: verification must be repeated each time."""
    for _ in range(n):
        ln = rng.choice([1, 5, 64, 300, 5000, 70000])
        d1, d2 = rand_bytes(rng, ln), rand_bytes(rng, ln)
        if d1 == d2: d2 = bytes([d2[0] ^ 1]) + d2[1:]
        algo = rng.choice(hashes.ALGOS)
        k1, k2 = "rot-one", "rot-two"
        prog = [{"op": "write", "fl": pick_fl(rng, flavour), "key": kx(k1), "data": d1.hex(), "algo": algo},
                {"op": "write", "fl": pick_fl(rng, flavour), "key": kx(k2), "data": d2.hex(), "algo": algo}]
        sri1 = hashes.sri(algo, d1)
        def extr(kind, by, to, fl):
            op = {"op": kind, "fl": fl, "by": by, "checked": True, "to": to}
            if by == "key": op["key"] = kx(k1)
            else: op["sri"] = sri1
            return op
        # first retrievals (all succeed); copies only, so that no destination shares the inode that is going to rot
        firsts = rng.sample([("copy", "key", "sync"), ("copy", "hash", "sync"), ("copy", "key", pick_fl(rng, flavour)), ("copy", "hash", pick_fl(rng, flavour))], rng.randrange(1, 4))
        hl_first = rng.random() < 0.5
        if hl_first:
            # a checked hard link first: the destination shares the inode that is going to rot, so after the rot the
            # destination is replaced by a separate file with the same (rotten) bytes — model and directory agree again
            firsts.append(("hard_link", "key", pick_fl(rng, flavour)))
            if rng.random() < 0.5: firsts.append(("hard_link", "hash", "sync"))
        for i, (kind, by, fl) in enumerate(firsts):
            prog.append(extr(kind, by, f"first{i}", fl))
        prog.append({"op": "read", "fl": pick_fl(rng, flavour), "key": kx(k1)})
        if rng.random() < 0.5:
            b = bytearray(d1); p = rng.randrange(0, ln); b[p] ^= 1 << rng.randrange(0, 8); new = bytes(b)
        else:
            new = d2
        prog.append({"op": "damage", "kind": "rot", "loc": ref.loc_c(ref.content_rel(sri1)), "data": new.hex()})
        for i, (kind, by, fl) in enumerate(firsts):
            if kind == "hard_link":
                prog.append({"op": "damage", "kind": "set", "loc": f"e:first{i}", "data": new.hex()})
        j = 0
        for kind in ("copy", "hard_link", "reflink"):
            for by in ("key", "hash"):
                for fl in FLS[flavour]:
                    if fl == "async" and kind == "hard_link" and by == "hash":
                        continue
                    j += 1
                    prog.append(extr(kind, by, f"again{j}", fl))
        prog += [{"op": "read", "fl": fl, "key": kx(k1)} for fl in FLS[flavour]]
        prog += [{"op": "read_hash", "fl": fl, "sri": sri1} for fl in FLS[flavour]]
        prog += [{"op": "ropen", "fl": pick_fl(rng, flavour), "r": 1, "key": kx(k1)}, {"op": "rall", "r": 1}, {"op": "rcheck", "r": 1}]
        yield prog


def late_commit_programs(rng, flavour, n):
    """C20 / C14: writers that are committed or dropped only after the cache was pulled from under them — cleared, or its
    (every entry of its root removed, tmp/ included) — possibly with one more chunk written through the descriptor of the
    unlinked temp file."""
    for _ in range(n):
        prog = []
        if rng.random() < 0.6:
            prog.append({"op": "write", "fl": pick_fl(rng, flavour), "key": kx("before"), "data": rand_bytes(rng, 9).hex()})
        nw = rng.randrange(1, 4)
        for w in range(1, nw + 1):
            data = rand_bytes(rng, rng.choice([0, 1, 10, 300, 5000]))
            op = {"op": "open", "fl": pick_fl(rng, flavour), "w": w, "algo": rng.choice(hashes.ALGOS)}
            if rng.random() < 0.6: op["key"] = kx(rng.choice(["late", "before", "other"]))
            sm = rng.choice(["none", "ok", "more"])
            if sm == "ok": op["size"] = len(data)
            elif sm == "more": op["size"] = len(data) + rng.choice([1, 7, 1000])
            prog.append(op)
            for c in chunkings(rng, data):
                prog.append({"op": "wchunk", "w": w, "data": c.hex(), "mode": "write_all"})
        prog.append({"op": "clear", "fl": pick_fl(rng, flavour)})
        if rng.random() < 0.3:
            # a write through the descriptor of the unlinked temp file still succeeds (Fs.exec: the fd-based steps)
            w = rng.randrange(1, nw + 1)
            prog.append({"op": "wchunk", "w": w, "data": rand_bytes(rng, 3).hex(), "mode": "write_all"})
        order = list(range(1, nw + 1)); rng.shuffle(order)
        for w in order:
            prog.append({"op": rng.choice(["commit", "commit", "drop"]), "w": w})
        for k in ("late", "before", "other"):
            prog.append({"op": "metadata", "fl": pick_fl(rng, flavour), "key": kx(k)})
            prog.append({"op": "read", "fl": pick_fl(rng, flavour), "key": kx(k)})
        prog.append({"op": "list"})
        yield prog
