"""Regenerates /verif/MANIFEST.json from the claims table below (run by hand when a property is added)."""
import json, sys
sys.path.insert(0, "/verif/py")

CLAIMS = {
 "C02": ("Theorems (props/C02.v, closed): from every tree with the cache shape invariant, for every key, chunk list (i.e. every chunking), algorithm, declared size in {none, correct}, flavour and entry point (streamed keyed / by address, one-shot write / write_hash), the write returns the address sri_of(algo, concat chunks), the invariant is kept, read by key and by address return exactly the data, metadata carries the right fields, other keys are unchanged; proved through the writer invariant (temp bytes = bytes hashed; mapped prefix on the mmap path), publication by rename and the index refinement of C05. Hash = any function with >= 2 digest bytes. The record's codec round trip is the hypothesis wf_rec (C11). Tie to /repo: random write programs (all entry points, chunkings incl. empty/1-byte/decreasing, sizes around 16 KiB and the 1 MiB mmap threshold, hostile keys, five algorithms, three flavours) read back by key/address/stream.",
         "proof (writer invariant + refinement) + differential correspondence", "7/C02"),
 "C08": ("Theorems (props/C08.v, closed) for every writer state meeting the writer invariant and every tree with the cache invariant: the decision rule of commit is exactly (i) declared integrity not matched -> Integrity error, (ii) else declared size != bytes written -> SizeMismatch(declared, written), (iii) else success; in (i)/(ii) every index location is byte-identical to before (the key's previous mapping untouched) and no temp file remains; in (iii) a keyed commit maps the key to the complete new entry and nothing else changes. 'Satisfies' = the declaration contains the digest under the writer's algorithm (ssri matches). Tie to /repo: streamed writers with declared sizes smaller/equal/larger and integrities correct/wrong/other-algorithm/multi-hash on three flavours.",
         "proof (case analysis of commit over the writer invariant) + differential correspondence", "7/C08"),
 "C14": ("Theorems (props/C14.v, closed): opening a writer and writing chunks change no lookup and touch only the writer's own temp file; dropping removes the temp file and leaves every other location identical; a rejected commit leaves every index location identical and no temp file. Hence only an accepted commit can make data reachable under a key. Partial: dropping an async writer while a blocking write is in flight is executor behaviour the model cannot exhibit; the harness exercises drops after every chunk count and compares tmp/ and the whole tree. Tie to /repo: programs with dropped / rejected / left-open writers interleaved with successful operations.",
         "proof (frame lemmas per writer step) + differential correspondence; partial for in-flight async drop", "7/C14"),
 "C16": ("Theorems (props/C16.v, closed): the returned address equals sri_of(algorithm, bytes) whatever the key, chunking, flavour, entry point, declared size and cache state; the data is stored complete at the path of its digest; re-storing bytes whose address exists leaves the stored copy byte-identical and creates or changes no other content file; paths of different algorithms are disjoint. 'Equals the standard digest' is carried by the correspondence: the model's hash parameter is bound to hashlib/libxxhash at run time, independent of RustCrypto. Tie to /repo: programs re-writing equal data under same/different keys via different entry points, flavours and all five algorithms; addresses, lookups and the final tree (one file per address) compared.",
         "proof + differential correspondence against independent digest implementations", "7/C16"),
 "C01": ("Theorems over an ARBITRARY tree (any finite map of files/dirs/symlinks, i.e. every damage pattern at once) and an arbitrary hash function: a successful read_hash / read / streamed read finished by check (for every list of buffer sizes) / checked copy, hard link, reflink delivers bytes that carry the digest of the requested (resp. the looked-up entry's) address and mutates nothing; with collision-freeness on the two strings the bytes equal the stored ones (props/C01.v, closed under the global context). Tie to /repo: random programs that store data, damage content files (bit flip, truncation, extension, emptying, swap, deletion, symlink substitution) and retrieve through all checked entry points on three flavours, compared step by step and tree by tree with the extracted model; direct oracle: hashlib digest of every delivered byte string / destination file equals the address.",
         "proof (arbitrary-state soundness lemmas over step programs) + differential correspondence", "7/C01"),
 "C18": ("Theorems over an arbitrary tree and destination state: a successful (checked or unchecked) copy leaves exactly the stored bytes at the destination and returns their length, a successful hard link needs a fresh destination and links the stored node, a missing key gives NotFound and missing content an I/O error with the tree untouched, and a checked extraction that fails verification leaves the whole tree (hence the destination) exactly as it was (props/C18.v, closed). Tie to /repo: extraction programs over pristine and damaged content, fresh and existing destinations, three flavours; oracle on the real destination file.",
         "proof + differential correspondence", "7/C18"),
 "C05": ("Theorem find_refines_map: for every history of index inserts/removals (the library's own step programs: mkdir -p, O_CREAT|O_APPEND open, one append) from any tree with a well-shaped index area, every key's lookup equals the abstract map 'last write wins, removal clears', for an arbitrary hash function (so colliding keys sharing a bucket are inside the theorem); plus frame conditions of one insert (props/C05.v, closed). The records' codec round trip is a hypothesis here (wf_rec), validated by vm_compute on examples and discharged by C11's codec theorems as they land. Tie to /repo: exhaustive short histories and random long ones (index::insert, write, remove, mixed sync/async) on three flavours, lookups after every step via find/metadata/read/list.",
         "proof (induction over histories, refinement to a map) + differential correspondence", "7/C05"),
 "C06": ("Theorems over arbitrary bucket bytes (all damage at once): entries are decided per line, damage to one line changes only that line's contribution, a destroyed newline fuses exactly two records, an appended record is effective after any tail without a pending CR, nothing is fabricated (props/C06.v, closed under the global context). Tie to /repo: differential run of the extracted model against the sync/async-std/tokio binaries on damaged buckets (every cut length of a record, bit flips, garbage/invalid-UTF-8/CR lines, fused and duplicated fragments), lookups through both API families and the listing.",
         "proof + differential correspondence", "7/C06"),
 "C10": ("Theorems for arbitrary record lists / bucket bytes: an entry is listed iff a lookup of its key finds exactly it, listed keys are pairwise distinct (props/C10.v, closed). Tie to /repo: random histories and damaged buckets, list_sync vs metadata on every key, compared field by field with the extracted model on three flavours. Cross-bucket placement (a record planted in a foreign bucket) is outside the theorem (BucketPlacement hypothesis, DESIGN 7/C10).",
         "proof + differential correspondence", "7/C10"),
}

def main():
    props = [json.loads(l) for l in open("/verif/properties.jsonl")]
    checks, na = [], []
    for p in props:
        pid = p["id"]
        if pid in CLAIMS:
            text, tech, ref = CLAIMS[pid]
            checks.append({
                "property_id": pid,
                "quick_cmd": f"./check {pid} --tier quick",
                "thorough_cmd": f"./check {pid} --tier thorough",
                "evidence_file": f"/verif/evidence/{pid}.json",
                "replay_cmd_template": "./check replay {path}",
                "engine": "coq-model+correspondence",
                "level_claimed": {"category": "proof", "text": text, "design_ref": "DESIGN.md section " + ref},
                "level_note": "Trusted: coqc 8.16.1 kernel; no axioms (Print Assumptions: closed); the model is hand-written and tied to /repo by a sampled differential correspondence (extracted OCaml model, ExtrOcamlBasic only, vs Rust harness), so the assurance about the code is that of the correspondence suites; filesystem, serde_json, ssri, lines() are modelled from their sources, not verified; hash functions are a universally quantified parameter bound at run time to hashlib/libxxhash.",
                "technique": tech,
            })
        else:
            na.append({"property_id": pid, "reason": "check not built yet (work in progress); the property is within reach of the technique, see DESIGN.md section 7"})
    m = {"version": 1, "setup_cmd": "./setup.sh",
         "hooks": {"guard": "cacache_verif", "enable": "no hooks are needed: the harness uses the public API (index::insert/find/ls are public) and strace; nothing to enable",
                   "baseline_off_cmd": "cd /repo && cargo test --workspace --no-fail-fast --offline", "source_commits": [], "add_only": True},
         "engines": [{"name": "coq-model+correspondence", "path": "/verif/coq, /verif/ocaml, /verif/harness, /verif/py",
                      "serves_properties": sorted(CLAIMS), "kind_free_text": "hand-written Gallina model with theorems (Coq 8.16.1), extracted to OCaml and run differentially against a Rust harness built from /repo's working tree"}],
         "checks": checks, "notes": "see DESIGN.md; fix commits in /repo are listed in KNOWN_FINDINGS.txt", "not_applicable": na}
    json.dump(m, open("/verif/MANIFEST.json", "w"), indent=1)
    print("claimed:", sorted(CLAIMS), "not yet:", [x["property_id"] for x in na])

if __name__ == "__main__":
    main()
