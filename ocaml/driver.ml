(* driver.ml — I/O glue around the extracted model (model.ml).  No logic lives here: a line of tokens is
   handed to Model.parse_op, the op to Model.step, the outcome to Model.show_outcome.
   Protocol (stdin/stdout, line based):
     in : "<tokens...>"            one op            out: "= <k>" newline first-line newline k extra lines
     in : "dump"                                      out: "= <k>" newline "dump" newline k node lines
     in : "reset"                                     out: "= 0" newline "reset"
     in : "crash <tokens...>"     peek: the trees a kill during that op can leave (Model.step_crash); the session does not
                                  advance.  out: "= <k>" newline "crash <n>" newline, then per state a line "state" + its node lines
   While evaluating, the model may ask for digests: out "?<algo> <hex>", in "<hex digest>". *)
module M = Model

let byte_of_char (c : char) : M.byte = Obj.magic (Char.code c)
let char_of_byte (b : M.byte) : char = Char.chr (Obj.magic b : int)

let bytes_of_string (s : string) : M.byte list =
  let r = ref [] in
  for i = String.length s - 1 downto 0 do r := byte_of_char s.[i] :: !r done; !r

let string_of_bytes (l : M.byte list) : string =
  let b = Buffer.create 256 in
  List.iter (fun x -> Buffer.add_char b (char_of_byte x)) l; Buffer.contents b

let hexs (s : string) : string =
  let b = Buffer.create (2 * String.length s) in
  String.iter (fun c -> Buffer.add_string b (Printf.sprintf "%02x" (Char.code c))) s; Buffer.contents b

let unhexs (s : string) : string =
  let n = String.length s / 2 in
  String.init n (fun i -> Char.chr (int_of_string ("0x" ^ String.sub s (2 * i) 2)))

let algo_name = function M.Sha512 -> "sha512" | M.Sha384 -> "sha384" | M.Sha256 -> "sha256" | M.Sha1 -> "sha1" | M.Xxh3 -> "xxh3"

let memo : (string, M.byte list) Hashtbl.t = Hashtbl.create 1024
let hash (a : M.algo) (d : M.byte list) : M.byte list =
  let s = string_of_bytes d in
  let key = algo_name a ^ ":" ^ (if String.length s > 4096 then Digest.string s ^ string_of_int (String.length s) else s) in
  match Hashtbl.find_opt memo key with
  | Some r -> r
  | None ->
      print_string "?"; print_string (algo_name a); print_char ' '; print_string (hexs s); print_newline ();
      let ans = input_line stdin in
      let r = bytes_of_string (unhexs (String.trim ans)) in
      Hashtbl.replace memo key r; r

let n_of_int (i : int) : M.n =
  (* via the model's own decimal reader *)
  fst (M.take_digits (bytes_of_string (string_of_int i)) M.N0)

let () =
  (* self-check of the byte representation trick *)
  assert (string_of_bytes (M.dec_of_N (M.b2n (byte_of_char 'A'))) = "65");
  assert (string_of_bytes (M.dec_of_N (M.b2n (byte_of_char '\255'))) = "255");
  assert (string_of_bytes (M.dec_of_N (M.b2n (byte_of_char '\000'))) = "0");
  let st = ref M.sstate0 in
  let idx = ref 0 in
  let emit first extra =
    Printf.printf "= %d\n%s\n" (List.length extra) first;
    List.iter (fun l -> print_string l; print_newline ()) extra;
    flush stdout in
  (try
    while true do
      let line = input_line stdin in
      let line = if String.length line > 0 && line.[String.length line - 1] = '\r' then String.sub line 0 (String.length line - 1) else line in
      if line = "reset" then begin st := M.sstate0; idx := 0; Hashtbl.reset memo; emit "reset" [] end
      else if line = "dump" then
        emit "dump" (List.map string_of_bytes (M.dump hash (M.s_fs !st)))
      else if String.length line > 6 && String.sub line 0 6 = "crash " then begin
        let toks = List.map bytes_of_string (String.split_on_char ' ' (String.sub line 6 (String.length line - 6))) in
        match M.parse_op toks with
        | None -> emit "parse-error" []
        | Some o ->
            let states = M.step_crash hash !st o (M.pseudo_now (n_of_int !idx)) in
            let lines = List.concat_map (fun f -> "state" :: List.map string_of_bytes (M.dump hash f)) states in
            emit (Printf.sprintf "crash %d" (List.length states)) lines
      end
      else begin
        let toks = List.map bytes_of_string (String.split_on_char ' ' line) in
        match M.parse_op toks with
        | None -> incr idx; emit "parse-error" []
        | Some o ->
            let (out, st') = M.step hash !st o (M.pseudo_now (n_of_int !idx)) in
            st := st'; incr idx;
            let (first, extra) = M.show_outcome out in
            emit (string_of_bytes first) (List.map string_of_bytes extra)
      end
    done
  with End_of_file -> ())
