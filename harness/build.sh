#!/usr/bin/env bash
# build.sh <sync|astd|tok> [link_to]
# Builds the cch harness for one flavour, offline, against /repo.
# Output: /verif/.build/bin/cch-<flavour>[-link_to]
set -euo pipefail

usage() {
    echo "usage: $0 <sync|astd|tok> [link_to]" >&2
    exit 2
}

flavour="${1:-}"
extra="${2:-}"
case "$flavour" in
    sync|astd|tok) ;;
    *) usage ;;
esac

features="$flavour"
suffix="$flavour"
case "$extra" in
    "") ;;
    link_to) features="$flavour,link_to"; suffix="$flavour-link_to" ;;
    *) usage ;;
esac

here="$(cd "$(dirname "$0")" && pwd)"
target="/verif/.build/cargo/$suffix"
bindir="/verif/.build/bin"

mkdir -p "$target" "$bindir"

# Same dependency versions as /repo; cargo adds the harness's own entry.
cp -f /repo/Cargo.lock "$here/Cargo.lock"

CARGO_NET_OFFLINE=true cargo build --offline --release \
    --manifest-path "$here/Cargo.toml" \
    --no-default-features --features "$features" \
    --target-dir "$target"

cp -f "$target/release/cch" "$bindir/cch-$suffix"
echo "built $bindir/cch-$suffix" >&2
