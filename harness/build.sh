#!/usr/bin/env bash
# build.sh <sync|astd|tok> [link_to]
# Builds the cch harness for one flavour, offline, against /repo.
# Output: /verif/.build/bin/cch-<flavour>[-link_to]
set -euo pipefail

usage() {
    echo "usage: $0 <sync|astd|tok> [link_to]" >&2
    exit 2
}

flavour="${1:-}"
extra="${2:-}"
case "$flavour" in
    sync|astd|tok) ;;
    *) usage ;;
esac

features="$flavour"
suffix="$flavour"
case "$extra" in
    "") ;;
    link_to) features="$flavour,link_to"; suffix="$flavour-link_to" ;;
    *) usage ;;
esac

here="$(cd "$(dirname "$0")" && pwd)"
# VERIF_REPO / VERIF_IMPL_DIR: evaluate a scratch worktree of the repository (seeded changes) without touching /repo
# or the binaries the registered checks use.  Defaults are what every registered check runs with.
repo="${VERIF_REPO:-/repo}"
impl="${VERIF_IMPL_DIR:-/verif/.build}"
target="$impl/cargo/$suffix"
bindir="$impl/bin"

mkdir -p "$target" "$bindir"

if [ "$repo" != "/repo" ]; then
    mkdir -p "$impl/harness-src/src"
    sed "s#path = \"/repo\"#path = \"$repo\"#" "$here/Cargo.toml" > "$impl/harness-src/Cargo.toml"
    cp -f "$here/src/main.rs" "$impl/harness-src/src/main.rs"
    here="$impl/harness-src"
fi

# Same dependency versions as the repository; cargo adds the harness's own entry.
cp -f "$repo/Cargo.lock" "$here/Cargo.lock"

CARGO_NET_OFFLINE=true cargo build --offline --release \
    --manifest-path "$here/Cargo.toml" \
    --no-default-features --features "$features" \
    --target-dir "$target"

cp -f "$target/release/cch" "$bindir/cch-$suffix"
echo "built $bindir/cch-$suffix" >&2
