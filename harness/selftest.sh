#!/usr/bin/env bash
# selftest.sh [--no-build] [flavour ...]
# Builds cch for sync, astd, tok and astd+link_to, then runs a short scripted
# session against each binary and prints the transcript ("> op" / "< result").
# Scratch directories live under /verif/.build/scratch and are removed afterwards.
set -euo pipefail

here="$(cd "$(dirname "$0")" && pwd)"
bindir=/verif/.build/bin
scratch_root=/verif/.build/scratch

build=1
if [ "${1:-}" = "--no-build" ]; then
    build=0
    shift
fi

if [ "$#" -gt 0 ]; then
    flavours=("$@")
else
    flavours=(sync astd tok astd-link_to)
fi

if [ "$build" = 1 ]; then
    for f in "${flavours[@]}"; do
        echo "### build $f"
        start=$(date +%s)
        case "$f" in
            *-link_to) "$here/build.sh" "${f%-link_to}" link_to ;;
            *) "$here/build.sh" "$f" ;;
        esac
        echo "### build $f: $(( $(date +%s) - start )) s"
    done
fi

mkdir -p "$scratch_root"
scratch="$scratch_root/selftest-$$"
cleanup() { rm -rf "$scratch"; }
trap cleanup EXIT
mkdir -p "$scratch"

status=0
for f in "${flavours[@]}"; do
    echo
    echo "################ session: cch-$f"
    dir="$scratch/$f"
    mkdir -p "$dir"
    if ! python3 - "$bindir/cch-$f" "$f" "$dir" <<'PYEOF'
import json, os, subprocess, sys

binary, flavour, root = sys.argv[1], sys.argv[2], sys.argv[3]
has_async = not flavour.startswith("sync")
has_link = flavour.endswith("link_to")
failures = []


def hx(s):
    return (s if isinstance(s, bytes) else s.encode()).hex()


class Cch:
    def __init__(self, name, env=None):
        self.cache = os.path.join(root, name, "cache")
        self.ext = os.path.join(root, name, "ext")
        os.makedirs(self.ext)
        e = dict(os.environ)
        e.update(env or {})
        print("--- start %s %s %s  env=%s" % (os.path.basename(binary), self.cache, self.ext, env or {}))
        self.p = subprocess.Popen([binary, self.cache, self.ext], stdin=subprocess.PIPE,
                                  stdout=subprocess.PIPE, env=e, text=True, bufsize=1)

    def op(self, **kw):
        line = json.dumps(kw, separators=(",", ":"))
        print("> " + line)
        self.p.stdin.write(line + "\n")
        self.p.stdin.flush()
        res = self.p.stdout.readline().rstrip("\n")
        print("< " + res)
        return json.loads(res) if res else {"r": "<eof>"}

    def close(self):
        self.p.stdin.close()
        rc = self.p.wait()
        print("--- exit code %d" % rc)
        return rc


def check(what, cond):
    if not cond:
        failures.append(what)
        print("!! CHECK FAILED: " + what)


def want(res, r, what, **fields):
    ok = res.get("r") in (r if isinstance(r, tuple) else (r,))
    for k, v in fields.items():
        ok = ok and res.get(k) == v
    check("%s: wanted r=%s %s, got %s" % (what, r, fields, res), ok)
    return res


def main_session():
    c = Cch("main")
    want(c.op(op="ping"), "ok", "ping")
    hello = b"hello world"
    for fl in ("sync", "async"):
        un = (fl == "async" and not has_async)
        okr = "unsupported" if un else "ok"
        print("--- fl=%s: write / read / metadata / list" % fl)
        k1 = hx("k1-" + fl)
        w = want(c.op(op="write", fl=fl, key=k1, data=hx(hello)), okr, "write")
        if un:
            want(c.op(op="read", fl=fl, key=k1), "unsupported", "read in sync build")
            continue
        sri = w["v"]
        want(c.op(op="read", fl=fl, key=k1), "ok", "read", v=hx(hello))
        m = want(c.op(op="metadata", fl=fl, key=k1), "ok", "metadata")
        check("metadata key/sri", m["v"] and m["v"]["key"] == k1 and m["v"]["sri"] == sri)
        want(c.op(op="metadata", fl=fl, key=hx("nope")), "ok", "metadata missing", v=None)
        l = want(c.op(op="list"), "ok", "list")
        check("list has k1", any(i.get("key") == k1 for i in l["v"]))
        want(c.op(op="read_hash", fl=fl, sri=sri), "ok", "read_hash", v=hx(hello))
        want(c.op(op="exists", fl=fl, sri=sri), "ok", "exists", v=True)
        x = want(c.op(op="write_hash", fl=fl, data=hx("xx"), algo="xxh3"), "ok", "write_hash xxh3")
        check("xxh3 sri", x["v"].startswith("xxh3-"))
        want(c.op(op="write", fl=fl, key=hx("k512-" + fl), data=hx("abc"), algo="sha512"), "ok", "write sha512")

        print("--- fl=%s: streamed writer, two chunks, commit" % fl)
        k2 = hx("k2-" + fl)
        want(c.op(op="open", fl=fl, w=1, key=k2), "ok", "open")
        want(c.op(op="open", fl=fl, w=1, key=k2), "badarg", "open on a live handle")
        want(c.op(op="wchunk", w=1, data=hx("hello "), mode="write_all"), "ok", "wchunk write_all", v=None)
        want(c.op(op="wchunk", w=1, data=hx("world"), mode="write"), "ok", "wchunk write", v=5)
        want(c.op(op="wflush", w=1), "ok", "wflush")
        want(c.op(op="commit", w=1), "ok", "commit", v=sri)
        want(c.op(op="commit", w=1), "badarg", "commit on a removed handle")
        want(c.op(op="open", fl=fl, w=3, key=hx("dropped-" + fl)), "ok", "open for drop")
        want(c.op(op="wchunk", w=3, data=hx("zzz"), mode="write_all"), "ok", "wchunk")
        want(c.op(op="drop", w=3), "ok", "drop")
        want(c.op(op="metadata", fl=fl, key=hx("dropped-" + fl)), "ok", "dropped writer left no entry", v=None)
        want(c.op(op="open", fl=fl, w=4, algo="sha1"), "ok", "open (hash, sha1)")
        want(c.op(op="wchunk", w=4, data=hx("abc"), mode="write_all"), "ok", "wchunk")
        h = want(c.op(op="commit", w=4), "ok", "commit hash writer")
        check("sha1 sri", h["v"] == "sha1-qZk+NkcGgWq6PiVxeFDCbJzQ2J0=")

        print("--- fl=%s: streamed reader" % fl)
        want(c.op(op="ropen", fl=fl, r=1, key=k2), "ok", "ropen")
        want(c.op(op="rchunk", r=1, n=5), "ok", "rchunk 5", v=hx("hello"))
        want(c.op(op="rchunk", r=1, n=100), "ok", "rchunk 100", v=hx(" world"))
        want(c.op(op="rchunk", r=1, n=100), "ok", "rchunk at eof", v="")
        want(c.op(op="rcheck", r=1), "ok", "rcheck", v="sha256")
        want(c.op(op="rchunk", r=1, n=1), "badarg", "rchunk on a removed handle")
        want(c.op(op="wchunk", w=1, data="00", mode="write"), "badarg", "wchunk on a missing handle")
        want(c.op(op="ropen_hash", fl=fl, r=2, sri=sri), "ok", "ropen_hash")
        want(c.op(op="rall", r=2), "ok", "rall", v=hx(hello))
        want(c.op(op="rcheck", r=2), "ok", "rcheck", v="sha256")
        want(c.op(op="ropen", fl=fl, r=5, key=k2), "ok", "ropen")
        want(c.op(op="rdrop", r=5), "ok", "rdrop")
        want(c.op(op="ropen", fl=fl, r=6, key=hx("nope")), "err", "ropen missing", e="NotFound")

        print("--- fl=%s: copy / hard_link / reflink" % fl)
        want(c.op(op="copy", fl=fl, by="key", checked=True, key=k1, to="copy-kc-" + fl), "ok", "copy", v=11)
        want(c.op(op="copy", fl=fl, by="key", checked=False, key=k1, to="copy-ku-" + fl), "ok", "copy_unchecked", v=11)
        want(c.op(op="copy", fl=fl, by="hash", checked=True, sri=sri, to="copy-hc-" + fl), "ok", "copy_hash", v=11)
        want(c.op(op="copy", fl=fl, by="hash", checked=False, sri=sri, to="copy-hu-" + fl), "ok", "copy_hash_unchecked", v=11)
        want(c.op(op="hard_link", fl=fl, by="key", checked=True, key=k1, to="hl-kc-" + fl), "ok", "hard_link")
        hl_other = "unsupported" if fl == "async" else "ok"
        want(c.op(op="hard_link", fl=fl, by="key", checked=False, key=k1, to="hl-ku-" + fl), hl_other, "hard_link_unchecked")
        want(c.op(op="hard_link", fl=fl, by="hash", checked=True, sri=sri, to="hl-hc-" + fl), hl_other, "hard_link_hash")
        want(c.op(op="hard_link", fl=fl, by="hash", checked=False, sri=sri, to="hl-hu-" + fl), hl_other, "hard_link_hash_unchecked")
        for name in ["copy-kc-", "copy-ku-", "copy-hc-", "copy-hu-", "hl-kc-"]:
            with open(os.path.join(c.ext, name + fl), "rb") as fh:
                check("destination %s%s content" % (name, fl), fh.read() == hello)
        # reflink: ok on a CoW filesystem, Io error elsewhere (ext4)
        want(c.op(op="reflink", fl=fl, by="key", checked=True, key=k1, to="rl-kc-" + fl), ("ok", "err"), "reflink")
        want(c.op(op="reflink", fl=fl, by="hash", checked=False, sri=sri, to="rl-hu-" + fl),
             ("unsupported",) if fl == "async" else ("ok", "err"), "reflink_hash_unchecked")

        print("--- fl=%s: EntryNotFound, SizeMismatch, Integrity" % fl)
        want(c.op(op="read", fl=fl, key=hx("nope")), "err", "read missing", e="NotFound")
        want(c.op(op="copy", fl=fl, by="key", checked=True, key=hx("nope"), to="never"), "err", "copy missing", e="NotFound")
        # declared size 3, one 5-byte chunk: SizeMismatch by contract; the
        # unmodified /repo panics in the mmap path for some variants.
        want(c.op(op="open", fl=fl, w=2, key=hx("k3-" + fl), size=3), "ok", "open size=3")
        r = c.op(op="wchunk", w=2, data=hx("12345"), mode="write_all")
        if r.get("r") == "panic":
            want(c.op(op="commit", w=2), "badarg", "handle dropped after the panic")
        else:
            r = c.op(op="commit", w=2)
            check("SizeMismatch (or panic): %s" % r,
                  r.get("r") == "panic" or (r.get("r") == "err" and r.get("e") == "SizeMismatch" and r.get("a") == [3, 5]))
        want(c.op(op="ping"), "ok", "still serving after the declared-size case")
        # same through the keyless writer (async: the mmap copy runs on a blocking thread)
        want(c.op(op="open", fl=fl, w=2, size=3), "ok", "open (hash) size=3")
        r = c.op(op="wchunk", w=2, data=hx("12345"), mode="write_all")
        if r.get("r") == "panic":
            want(c.op(op="commit", w=2), "badarg", "handle dropped after the panic")
        else:
            r = c.op(op="commit", w=2)
            check("SizeMismatch (or panic): %s" % r,
                  r.get("r") == "panic" or (r.get("r") == "err" and r.get("e") == "SizeMismatch" and r.get("a") == [3, 5]))
        want(c.op(op="write", fl=fl, key=hx("after-panic-" + fl), data=hx("ok")), "ok", "still serving")
        # size larger than the mmap limit: plain file path, SizeMismatch expected
        want(c.op(op="open", fl=fl, w=2, key=hx("k3b-" + fl), size=2000000), "ok", "open size=2000000")
        want(c.op(op="wchunk", w=2, data=hx("12345"), mode="write_all"), "ok", "wchunk")
        want(c.op(op="commit", w=2), "err", "commit", e="SizeMismatch", a=[2000000, 5])
        want(c.op(op="open", fl=fl, w=2, key=hx("k3c-" + fl), sri="sha256-AAAAAAAAAAAAAAAAAAAAAAAAAAAAAAAAAAAAAAAAAAA="), "ok", "open sri")
        want(c.op(op="wchunk", w=2, data=hx("12345"), mode="write_all"), "ok", "wchunk")
        want(c.op(op="commit", w=2), "err", "commit", e="Integrity")

        print("--- fl=%s: insert / find / delete" % fl)
        k4 = hx("k4-" + fl)
        want(c.op(op="insert", fl=fl, key=k4, sri=sri, size=11, time="1234567890123",
                  meta={"a": [1, 2], "b": "x"}, raw="00ff10"), "ok", "insert", v=sri)
        fnd = want(c.op(op="find", fl=fl, key=k4), "ok", "find")
        check("find payload", fnd["v"] == {"key": k4, "sri": sri, "time": "1234567890123", "size": 11,
                                           "meta": hx('{"a":[1,2],"b":"x"}'), "raw": "00ff10"})
        want(c.op(op="read", fl=fl, key=k4), "ok", "read through the inserted entry", v=hx(hello))
        want(c.op(op="delete", fl=fl, key=k4), "ok", "delete")
        want(c.op(op="find", fl=fl, key=k4), "ok", "find after delete", v=None)

        print("--- fl=%s: remove / remove_opts / remove_hash / clear" % fl)
        want(c.op(op="remove", fl=fl, key=k1), "ok", "remove")
        want(c.op(op="metadata", fl=fl, key=k1), "ok", "metadata after remove", v=None)
        want(c.op(op="remove_opts", fl=fl, key=k2, fully=False), "ok", "remove_opts fully=false")
        want(c.op(op="exists", fl=fl, sri=sri), "ok", "content still there", v=True)
        want(c.op(op="remove_opts", fl=fl, key=hx("k512-" + fl), fully=True), "ok", "remove_opts fully=true")
        want(c.op(op="remove_hash", fl=fl, sri=sri), "ok", "remove_hash")
        want(c.op(op="exists", fl=fl, sri=sri), "ok", "exists after remove_hash", v=False)
        want(c.op(op="read_hash", fl=fl, sri=sri), "err", "read_hash after remove_hash", e="Io", kind="NotFound")
        want(c.op(op="clear", fl=fl), "ok", "clear")
        want(c.op(op="list"), "ok", "list after clear")

    print("--- argument errors")
    want(c.op(op="read", key="ff"), "badarg", "key not UTF-8")
    want(c.op(op="read", key="zz"), "badarg", "key not hex")
    want(c.op(op="read_hash", sri="garbage"), "badarg", "bad sri")
    want(c.op(op="write", key=hx("k"), data="00", algo="md5"), "badarg", "bad algo")
    want(c.op(op="frobnicate"), "badarg", "unknown op")
    want(c.op(op="list", fl="async"), "unsupported", "async list")

    print("--- link_to")
    target = os.path.join(c.ext, "target.bin")
    with open(target, "wb") as fh:
        fh.write(b"linked data")
    if not has_link:
        want(c.op(op="link_to", key=hx("lk"), target="target.bin"), "unsupported", "link_to without the feature")
        want(c.op(op="lopen", l=1, key=hx("lk"), target="target.bin"), "unsupported", "lopen without the feature")
        want(c.op(op="lchunk", l=1, n=4), "unsupported", "lchunk without the feature")
    else:
        for fl in ("sync", "async"):
            if fl == "async" and not has_async:
                want(c.op(op="link_to", fl=fl, key=hx("lk-" + fl), target="target.bin"), "unsupported", "async link_to in sync build")
                continue
            want(c.op(op="link_to", fl=fl, key=hx("lk-" + fl), target="target.bin"), "ok", "link_to")
            want(c.op(op="read", fl=fl, key=hx("lk-" + fl)), "ok", "read linked", v=hx("linked data"))
            want(c.op(op="link_to", fl=fl, target="target.bin"), "ok", "link_to_hash")
            want(c.op(op="lopen", fl=fl, l=1, key=hx("lo-" + fl), target="target.bin", plain=True), "ok", "lopen plain")
            want(c.op(op="lchunk", l=1, n=6), "ok", "lchunk", v=hx("linked"))
            want(c.op(op="lcommit", l=1), "ok", "lcommit")
            want(c.op(op="lopen", fl=fl, l=2, target="target.bin", algo="sha512", meta=7), "ok", "lopen opts, hash")
            want(c.op(op="ldrop", l=2), "ok", "ldrop")
            want(c.op(op="lopen", fl=fl, l=3, key=hx("lo3-" + fl), target="target.bin", size=4), "ok", "lopen size=4")
            want(c.op(op="lcommit", l=3), "err", "lcommit", e="SizeMismatch", a=[4, 11])
            want(c.op(op="link_to", fl=fl, key=hx("lmiss"), target="missing.bin"), "err", "link_to missing target", e="Io")
        # relative target: cwd becomes ext_dir[/cwd], the path is passed verbatim
        # (on the unmodified /repo the symlink then dangles and the read fails with Io)
        os.makedirs(os.path.join(c.ext, "sub"))
        for name, data in (("rel1.bin", b"relative one"), ("sub/rel2.bin", b"relative two")):
            with open(os.path.join(c.ext, name), "wb") as fh:
                fh.write(data)
        want(c.op(op="link_to", fl="sync", key=hx("lrel1"), target="rel1.bin", rel=True), "ok", "link_to rel")
        want(c.op(op="read", key=hx("lrel1")), ("ok", "err"), "read through a relative link")
        want(c.op(op="link_to", fl=("async" if has_async else "sync"), key=hx("lrel2"), target="rel2.bin", rel=True, cwd="sub"),
             "ok", "link_to rel cwd=sub")
        want(c.op(op="read", key=hx("lrel2")), ("ok", "err"), "read through a relative link")
        want(c.op(op="link_to", key=hx("lrel3"), target="x", rel=True, cwd="no-such-dir"), "badarg", "cwd missing")
    want(c.op(op="ping"), "ok", "final ping")
    check("exit code 0 on EOF", c.close() == 0)


def single_session():
    print("--- CCH_SINGLE=1 round trip")
    c = Cch("single", {"CCH_SINGLE": "1"})
    fl = "async" if has_async else "sync"
    want(c.op(op="write", fl=fl, key=hx("s"), data=hx("single")), "ok", "write")
    want(c.op(op="read", fl=fl, key=hx("s")), "ok", "read", v=hx("single"))
    want(c.op(op="open", fl=fl, w=1, key=hx("s2")), "ok", "open")
    want(c.op(op="wchunk", w=1, data=hx("ab"), mode="write_all"), "ok", "wchunk")
    want(c.op(op="commit", w=1), "ok", "commit")
    want(c.op(op="read", fl=fl, key=hx("s2")), "ok", "read", v=hx("ab"))
    check("exit code 0 on EOF", c.close() == 0)


def hang_session():
    print("--- watchdog: copy into a FIFO nobody reads blocks forever")
    c = Cch("hang", {"CCH_TIMEOUT_MS": "700"})
    os.mkfifo(os.path.join(c.ext, "fifo"))
    fl = "async" if has_async else "sync"
    want(c.op(op="write", key=hx("h"), data=hx("data")), "ok", "write")
    want(c.op(op="copy", fl=fl, by="key", checked=False, key=hx("h"), to="fifo"), "hang", "copy to fifo")
    check("exit code 3 after a hang", c.p.wait() == 3)
    print("--- exit code %d" % c.p.returncode)


main_session()
single_session()
hang_session()
if failures:
    print("RESULT %s: %d check(s) FAILED" % (flavour, len(failures)))
    for f in failures:
        print("   " + f)
    sys.exit(1)
print("RESULT %s: all checks passed" % flavour)
PYEOF
    then
        status=1
    fi
    rm -rf "$dir"
done

exit "$status"
