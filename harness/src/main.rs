//! `cch` -- implementation-side harness for cacache. See ../SPEC.md.
//!
//! Reads one JSON op per stdin line, executes exactly one cacache API call for
//! it on a dedicated worker thread, prints exactly one JSON result line.

#[cfg(not(any(feature = "sync", feature = "astd", feature = "tok")))]
compile_error!("enable exactly one of the features `sync`, `astd`, `tok`");
#[cfg(any(
    all(feature = "sync", feature = "astd"),
    all(feature = "sync", feature = "tok"),
    all(feature = "astd", feature = "tok")
))]
compile_error!("the features `sync`, `astd`, `tok` are mutually exclusive");

use std::collections::HashMap;
use std::io::{BufRead, Read, Write};
use std::panic::{catch_unwind, AssertUnwindSafe};
use std::path::{Path, PathBuf};
use std::sync::atomic::{AtomicU64, Ordering};
use std::sync::mpsc;
use std::sync::Mutex;
use std::time::{Duration, SystemTime, UNIX_EPOCH};

use cacache::{Algorithm, Integrity, WriteOpts};
use serde_json::{json, Value};

#[cfg(any(feature = "astd", feature = "tok"))]
use rt::{AsyncReadExt, AsyncWriteExt};

const HAVE_ASYNC: bool = cfg!(any(feature = "astd", feature = "tok"));

// ---------------------------------------------------------------------------
// Runtime glue (one runtime for the process lifetime, owned by the worker)
// ---------------------------------------------------------------------------

#[cfg(feature = "astd")]
mod rt {
    pub use futures::io::{AsyncReadExt, AsyncWriteExt};
    use std::future::Future;

    pub struct Rt;

    impl Rt {
        /// async-std's global runtime is configured through the environment
        /// (see `main`), nothing to build here.
        pub fn new(_single: bool) -> Rt {
            Rt
        }
        pub fn block_on<F: Future>(&self, f: F) -> F::Output {
            async_std::task::block_on(f)
        }
        /// Drop a value "inside" the runtime.
        pub fn drop_in<T>(&self, v: T) {
            drop(v)
        }
        /// Wait for every blocking task queued so far (exact with one blocking thread, `CCH_SINGLE=1`).
        pub fn barrier(&self) {
            async_std::task::block_on(async_std::task::spawn_blocking(|| ()));
        }
        /// Occupy a blocking thread until the receiver fires (with one blocking thread: later tasks queue up).
        pub fn gate(&self, rx: std::sync::mpsc::Receiver<()>) {
            let _ = async_std::task::spawn_blocking(move || {
                let _ = rx.recv_timeout(std::time::Duration::from_secs(5));
            });
        }
    }
}

#[cfg(feature = "tok")]
mod rt {
    use std::future::Future;
    pub use tokio::io::{AsyncReadExt, AsyncWriteExt};

    pub struct Rt(tokio::runtime::Runtime);

    impl Rt {
        pub fn new(single: bool) -> Rt {
            let rt = if single {
                tokio::runtime::Builder::new_current_thread()
                    .max_blocking_threads(1)
                    .enable_all()
                    .build()
            } else {
                tokio::runtime::Builder::new_multi_thread()
                    .enable_all()
                    .build()
            };
            Rt(rt.expect("cannot build the tokio runtime"))
        }
        pub fn block_on<F: Future>(&self, f: F) -> F::Output {
            self.0.block_on(f)
        }
        /// Drop a value with the runtime context entered.
        pub fn drop_in<T>(&self, v: T) {
            let _guard = self.0.enter();
            drop(v)
        }
        /// Wait for every blocking task queued so far (exact with one blocking thread, `CCH_SINGLE=1`).
        pub fn barrier(&self) {
            let _ = self.0.block_on(async { tokio::task::spawn_blocking(|| ()).await });
        }
        /// Occupy a blocking thread until the receiver fires (with one blocking thread: later tasks queue up).
        pub fn gate(&self, rx: std::sync::mpsc::Receiver<()>) {
            let _ = self.0.spawn_blocking(move || {
                let _ = rx.recv_timeout(std::time::Duration::from_secs(5));
            });
        }
    }
}

// ---------------------------------------------------------------------------
// Timing of "the call"
// ---------------------------------------------------------------------------

static T0: AtomicU64 = AtomicU64::new(0);
static T1: AtomicU64 = AtomicU64::new(0);

fn now_ms() -> u64 {
    SystemTime::now()
        .duration_since(UNIX_EPOCH)
        .map(|d| d.as_millis() as u64)
        .unwrap_or(0)
}

/// Runs the library call, recording unix millis right before / after it.
fn timed<T>(f: impl FnOnce() -> T) -> T {
    T0.store(now_ms(), Ordering::SeqCst);
    let r = f();
    T1.store(now_ms(), Ordering::SeqCst);
    r
}

// ---------------------------------------------------------------------------
// Panic recording
// ---------------------------------------------------------------------------

static PANICS: Mutex<Vec<String>> = Mutex::new(Vec::new());

fn payload_str(p: &(dyn std::any::Any + Send)) -> String {
    if let Some(s) = p.downcast_ref::<&'static str>() {
        (*s).to_string()
    } else if let Some(s) = p.downcast_ref::<String>() {
        s.clone()
    } else {
        "<non-string panic payload>".to_string()
    }
}

fn install_panic_hook() {
    std::panic::set_hook(Box::new(|info| {
        let mut msg = payload_str(info.payload());
        if let Some(l) = info.location() {
            msg.push_str(&format!(" @ {}:{}:{}", l.file(), l.line(), l.column()));
        }
        let mut g = PANICS.lock().unwrap_or_else(|e| e.into_inner());
        g.push(msg);
    }));
}

fn take_panics() -> Vec<String> {
    let mut g = PANICS.lock().unwrap_or_else(|e| e.into_inner());
    std::mem::take(&mut *g)
}

// ---------------------------------------------------------------------------
// Failure results
// ---------------------------------------------------------------------------

struct ErrInfo {
    e: &'static str,
    a: Option<(usize, usize)>,
    kind: Option<String>,
    msg: String,
}

enum Fail {
    Err(ErrInfo),
    Unsupported,
    BadArg(String),
}

type Res<T> = Result<T, Fail>;

fn classify(e: &cacache::Error) -> ErrInfo {
    let msg = e.to_string();
    match e {
        cacache::Error::EntryNotFound(_, _) => ErrInfo {
            e: "NotFound",
            a: None,
            kind: None,
            msg,
        },
        cacache::Error::SizeMismatch(w, a) => ErrInfo {
            e: "SizeMismatch",
            a: Some((*w, *a)),
            kind: None,
            msg,
        },
        cacache::Error::IoError(ioe, _) => ErrInfo {
            e: "Io",
            a: None,
            kind: Some(format!("{:?}", ioe.kind())),
            msg,
        },
        cacache::Error::SerdeError(_, _) => ErrInfo {
            e: "Serde",
            a: None,
            kind: None,
            msg,
        },
        cacache::Error::IntegrityError(_) => ErrInfo {
            e: "Integrity",
            a: None,
            kind: None,
            msg,
        },
    }
}

impl From<cacache::Error> for Fail {
    fn from(e: cacache::Error) -> Fail {
        Fail::Err(classify(&e))
    }
}

impl From<std::io::Error> for Fail {
    fn from(e: std::io::Error) -> Fail {
        Fail::Err(ErrInfo {
            e: "Io",
            a: None,
            kind: Some(format!("{:?}", e.kind())),
            msg: e.to_string(),
        })
    }
}

fn bad<T>(msg: impl Into<String>) -> Res<T> {
    Err(Fail::BadArg(msg.into()))
}

fn jstr(s: &str) -> String {
    Value::String(s.to_string()).to_string()
}

fn ok_line(v: &Value) -> String {
    format!(
        "{{\"r\":\"ok\",\"v\":{},\"t0\":{},\"t1\":{}}}",
        v,
        T0.load(Ordering::SeqCst),
        T1.load(Ordering::SeqCst)
    )
}

fn fail_line(f: &Fail) -> String {
    match f {
        Fail::Unsupported => "{\"r\":\"unsupported\"}".to_string(),
        Fail::BadArg(m) => format!("{{\"r\":\"badarg\",\"msg\":{}}}", jstr(m)),
        Fail::Err(e) => {
            let mut s = format!("{{\"r\":\"err\",\"e\":{}", jstr(e.e));
            if let Some((w, a)) = e.a {
                s.push_str(&format!(",\"a\":[{},{}]", w, a));
            }
            if let Some(k) = &e.kind {
                s.push_str(&format!(",\"kind\":{}", jstr(k)));
            }
            s.push_str(&format!(",\"msg\":{}}}", jstr(&e.msg)));
            s
        }
    }
}

fn panic_line(msg: &str) -> String {
    format!("{{\"r\":\"panic\",\"msg\":{}}}", jstr(msg))
}

// ---------------------------------------------------------------------------
// Argument decoding
// ---------------------------------------------------------------------------

/// A field counts as given when present and not JSON null.
fn field<'a>(op: &'a Value, name: &str) -> Option<&'a Value> {
    match op.get(name) {
        None | Some(Value::Null) => None,
        Some(v) => Some(v),
    }
}

fn opt_str<'a>(op: &'a Value, name: &str) -> Res<Option<&'a str>> {
    match field(op, name) {
        None => Ok(None),
        Some(Value::String(s)) => Ok(Some(s.as_str())),
        Some(_) => bad(format!("field `{name}` must be a string")),
    }
}

fn req_str<'a>(op: &'a Value, name: &str) -> Res<&'a str> {
    match opt_str(op, name)? {
        Some(s) => Ok(s),
        None => bad(format!("missing field `{name}`")),
    }
}

fn opt_hex(op: &Value, name: &str) -> Res<Option<Vec<u8>>> {
    match opt_str(op, name)? {
        None => Ok(None),
        Some(s) => match hex::decode(s) {
            Ok(b) => Ok(Some(b)),
            Err(e) => bad(format!("field `{name}` is not hex: {e}")),
        },
    }
}

fn req_hex(op: &Value, name: &str) -> Res<Vec<u8>> {
    match opt_hex(op, name)? {
        Some(b) => Ok(b),
        None => bad(format!("missing field `{name}`")),
    }
}

fn opt_key(op: &Value) -> Res<Option<String>> {
    match opt_hex(op, "key")? {
        None => Ok(None),
        Some(b) => match String::from_utf8(b) {
            Ok(s) => Ok(Some(s)),
            Err(_) => bad("field `key` is not valid UTF-8"),
        },
    }
}

fn req_key(op: &Value) -> Res<String> {
    match opt_key(op)? {
        Some(k) => Ok(k),
        None => bad("missing field `key`"),
    }
}

fn opt_algo(op: &Value) -> Res<Option<Algorithm>> {
    match opt_str(op, "algo")? {
        None => Ok(None),
        Some("sha1") => Ok(Some(Algorithm::Sha1)),
        Some("sha256") => Ok(Some(Algorithm::Sha256)),
        Some("sha384") => Ok(Some(Algorithm::Sha384)),
        Some("sha512") => Ok(Some(Algorithm::Sha512)),
        Some("xxh3") => Ok(Some(Algorithm::Xxh3)),
        Some(other) => bad(format!("unknown algo `{other}`")),
    }
}

fn algo_name(a: Algorithm) -> String {
    match a {
        Algorithm::Sha1 => "sha1".to_string(),
        Algorithm::Sha256 => "sha256".to_string(),
        Algorithm::Sha384 => "sha384".to_string(),
        Algorithm::Sha512 => "sha512".to_string(),
        Algorithm::Xxh3 => "xxh3".to_string(),
        other => other.to_string(), // Algorithm is #[non_exhaustive]
    }
}

fn opt_sri(op: &Value) -> Res<Option<Integrity>> {
    match opt_str(op, "sri")? {
        None => Ok(None),
        Some(s) => match s.parse::<Integrity>() {
            Ok(i) => Ok(Some(i)),
            Err(e) => bad(format!("field `sri` does not parse: {e}")),
        },
    }
}

fn req_sri(op: &Value) -> Res<Integrity> {
    match opt_sri(op)? {
        Some(i) => Ok(i),
        None => bad("missing field `sri`"),
    }
}

fn opt_u64(op: &Value, name: &str) -> Res<Option<u64>> {
    match field(op, name) {
        None => Ok(None),
        Some(v) => match v.as_u64() {
            Some(n) => Ok(Some(n)),
            None => bad(format!("field `{name}` must be a non-negative integer")),
        },
    }
}

fn req_usize(op: &Value, name: &str) -> Res<usize> {
    match opt_u64(op, name)? {
        Some(n) => Ok(n as usize),
        None => bad(format!("missing field `{name}`")),
    }
}

fn req_id(op: &Value, name: &str) -> Res<i64> {
    match field(op, name) {
        None => bad(format!("missing handle field `{name}`")),
        Some(v) => match v.as_i64() {
            Some(n) => Ok(n),
            None => bad(format!("handle field `{name}` must be an integer")),
        },
    }
}

fn opt_bool(op: &Value, name: &str, default: bool) -> Res<bool> {
    match field(op, name) {
        None => Ok(default),
        Some(Value::Bool(b)) => Ok(*b),
        Some(_) => bad(format!("field `{name}` must be a boolean")),
    }
}

fn opt_time(op: &Value) -> Res<Option<u128>> {
    match field(op, "time") {
        None => Ok(None),
        Some(Value::String(s)) => match s.parse::<u128>() {
            Ok(t) => Ok(Some(t)),
            Err(e) => bad(format!("field `time` is not a decimal u128: {e}")),
        },
        Some(v) => match v.as_u64() {
            Some(t) => Ok(Some(t as u128)),
            None => bad("field `time` must be a decimal string"),
        },
    }
}

/// `fl`: "sync" (default) or "async".
fn is_async(op: &Value) -> Res<bool> {
    match opt_str(op, "fl")? {
        None | Some("sync") => Ok(false),
        Some("async") => Ok(true),
        Some(other) => bad(format!("unknown fl `{other}`")),
    }
}

/// `by`: "key" (default) or "hash".
fn by_hash(op: &Value) -> Res<bool> {
    match opt_str(op, "by")? {
        None | Some("key") => Ok(false),
        Some("hash") => Ok(true),
        Some(other) => bad(format!("unknown by `{other}`")),
    }
}

/// `WriteOpts::new()` plus one builder call per given field.
/// `meta` counts as given whenever the key is present (JSON null included).
fn build_opts(op: &Value) -> Res<WriteOpts> {
    let mut o = WriteOpts::new();
    if let Some(a) = opt_algo(op)? {
        o = o.algorithm(a);
    }
    if let Some(n) = opt_u64(op, "size")? {
        o = o.size(n as usize);
    }
    if let Some(i) = opt_sri(op)? {
        o = o.integrity(i);
    }
    if let Some(t) = opt_time(op)? {
        o = o.time(t);
    }
    if let Some(m) = op.get("meta") {
        o = o.metadata(m.clone());
    }
    if let Some(r) = opt_hex(op, "raw")? {
        o = o.raw_metadata(r);
    }
    Ok(o)
}

fn meta_json(m: &cacache::Metadata) -> Value {
    let meta_text = serde_json::to_string(&m.metadata).unwrap_or_default();
    json!({
        "key": hex::encode(m.key.as_bytes()),
        "sri": m.integrity.to_string(),
        "time": m.time.to_string(),
        "size": m.size,
        "meta": hex::encode(meta_text.as_bytes()),
        "raw": m.raw_metadata.as_ref().map(hex::encode),
    })
}

fn opt_meta_json(m: &Option<cacache::Metadata>) -> Value {
    match m {
        Some(m) => meta_json(m),
        None => Value::Null,
    }
}

// ---------------------------------------------------------------------------
// Handles
// ---------------------------------------------------------------------------

enum W {
    Sync(cacache::SyncWriter),
    #[cfg(any(feature = "astd", feature = "tok"))]
    Async(cacache::Writer),
}

enum R {
    Sync(cacache::SyncReader),
    #[cfg(any(feature = "astd", feature = "tok"))]
    Async(cacache::Reader),
}

#[cfg(feature = "link_to")]
enum L {
    Sync(cacache::SyncToLinker),
    #[cfg(any(feature = "astd", feature = "tok"))]
    Async(cacache::ToLinker),
}

fn no_handle<T>(kind: &str, id: i64) -> Res<T> {
    bad(format!("no open `{kind}` handle {id}"))
}

fn handle_in_use<T>(kind: &str, id: i64) -> Res<T> {
    bad(format!("`{kind}` handle {id} is already open"))
}

// ---------------------------------------------------------------------------
// Dispatch macros: select the `_sync` or the async entry point by `fl`
// ---------------------------------------------------------------------------

/// Both entry points return the same type.
#[cfg(any(feature = "astd", feature = "tok"))]
macro_rules! call {
    ($st:ident, $asy:expr, $sync:expr, $async:expr) => {
        if $asy {
            let rt = &$st.rt;
            timed(|| rt.block_on($async))
        } else {
            timed(|| $sync)
        }
    };
}
#[cfg(not(any(feature = "astd", feature = "tok")))]
macro_rules! call {
    ($st:ident, $asy:expr, $sync:expr, $async:expr) => {{
        let _ = $asy; // always false here: `exec` answered `unsupported` already
        timed(|| $sync)
    }};
}

/// The entry points return a sync / an async object; wrap it in the handle enum.
#[cfg(any(feature = "astd", feature = "tok"))]
macro_rules! open_handle {
    ($st:ident, $asy:expr, $enum:ident, $sync:expr, $async:expr) => {
        if $asy {
            let rt = &$st.rt;
            $enum::Async(timed(|| rt.block_on($async))?)
        } else {
            $enum::Sync(timed(|| $sync)?)
        }
    };
}
#[cfg(not(any(feature = "astd", feature = "tok")))]
macro_rules! open_handle {
    ($st:ident, $asy:expr, $enum:ident, $sync:expr, $async:expr) => {{
        let _ = $asy;
        $enum::Sync(timed(|| $sync)?)
    }};
}

// ---------------------------------------------------------------------------
// Worker state
// ---------------------------------------------------------------------------

struct State {
    cache: String,
    ext: PathBuf,
    writers: HashMap<i64, W>,
    readers: HashMap<i64, R>,
    #[cfg(feature = "link_to")]
    linkers: HashMap<i64, L>,
    #[cfg(any(feature = "astd", feature = "tok"))]
    rt: rt::Rt,
}

impl State {
    fn new(cache: String, ext: PathBuf, single: bool) -> State {
        let _ = single;
        State {
            cache,
            ext,
            writers: HashMap::new(),
            readers: HashMap::new(),
            #[cfg(feature = "link_to")]
            linkers: HashMap::new(),
            #[cfg(any(feature = "astd", feature = "tok"))]
            rt: rt::Rt::new(single),
        }
    }

    /// Destination path for copy / hard_link / reflink.
    fn dest(&self, op: &Value) -> Res<PathBuf> {
        let to = req_str(op, "to")?;
        Ok(self.ext.join(to)) // `join` keeps an absolute `to` as is
    }

    /// Target path for the link ops; may change the process cwd (`rel:true`).
    #[cfg(feature = "link_to")]
    fn link_target(&self, op: &Value) -> Res<PathBuf> {
        let target = req_str(op, "target")?;
        if opt_bool(op, "rel", false)? {
            let cwd = opt_str(op, "cwd")?.unwrap_or("");
            let dir = if cwd.is_empty() {
                self.ext.clone()
            } else {
                self.ext.join(cwd)
            };
            if let Err(e) = std::env::set_current_dir(&dir) {
                return bad(format!("set_current_dir({}): {e}", dir.display()));
            }
            Ok(PathBuf::from(target))
        } else {
            Ok(self.ext.join(target))
        }
    }

    fn drop_writer(&self, w: W) {
        match w {
            W::Sync(w) => timed(|| drop(w)),
            #[cfg(any(feature = "astd", feature = "tok"))]
            W::Async(w) => timed(|| {
                self.rt.drop_in(w);
                // a detached blocking task of the writer may still be running
                std::thread::sleep(Duration::from_millis(50));
            }),
        }
    }

    fn drop_reader(&self, r: R) {
        match r {
            R::Sync(r) => timed(|| drop(r)),
            #[cfg(any(feature = "astd", feature = "tok"))]
            R::Async(r) => timed(|| self.rt.drop_in(r)),
        }
    }

    #[cfg(feature = "link_to")]
    fn drop_linker(&self, l: L) {
        match l {
            L::Sync(l) => timed(|| drop(l)),
            #[cfg(any(feature = "astd", feature = "tok"))]
            L::Async(l) => timed(|| self.rt.drop_in(l)),
        }
    }

    /// After a panic: drop the handle the op referred to, shielded.
    fn drop_involved(&mut self, op: &Value) {
        if let Some(id) = op.get("w").and_then(Value::as_i64) {
            if let Some(w) = self.writers.remove(&id) {
                let _ = catch_unwind(AssertUnwindSafe(|| self.drop_writer(w)));
            }
        }
        if let Some(id) = op.get("r").and_then(Value::as_i64) {
            if let Some(r) = self.readers.remove(&id) {
                let _ = catch_unwind(AssertUnwindSafe(|| self.drop_reader(r)));
            }
        }
        #[cfg(feature = "link_to")]
        if let Some(id) = op.get("l").and_then(Value::as_i64) {
            if let Some(l) = self.linkers.remove(&id) {
                let _ = catch_unwind(AssertUnwindSafe(|| self.drop_linker(l)));
            }
        }
    }

    /// End of session: drop every remaining handle, shielded.
    fn shutdown(&mut self) {
        let ws: Vec<W> = self.writers.drain().map(|(_, w)| w).collect();
        for w in ws {
            let _ = catch_unwind(AssertUnwindSafe(|| self.drop_writer(w)));
        }
        let rs: Vec<R> = self.readers.drain().map(|(_, r)| r).collect();
        for r in rs {
            let _ = catch_unwind(AssertUnwindSafe(|| self.drop_reader(r)));
        }
        #[cfg(feature = "link_to")]
        {
            let ls: Vec<L> = self.linkers.drain().map(|(_, l)| l).collect();
            for l in ls {
                let _ = catch_unwind(AssertUnwindSafe(|| self.drop_linker(l)));
            }
        }
    }

    /// One request line in, one result line out.
    fn handle(&mut self, line: &str) -> String {
        let op: Value = match serde_json::from_str(line) {
            Ok(v) => v,
            Err(e) => return fail_line(&Fail::BadArg(format!("request is not JSON: {e}"))),
        };
        if !op.is_object() {
            return fail_line(&Fail::BadArg("request is not a JSON object".to_string()));
        }
        take_panics();
        let res = catch_unwind(AssertUnwindSafe(|| self.exec(&op)));
        match res {
            Ok(Ok(v)) => ok_line(&v),
            Ok(Err(f)) => fail_line(&f),
            Err(payload) => {
                let mut msgs = take_panics();
                if msgs.is_empty() {
                    msgs.push(payload_str(payload.as_ref()));
                }
                self.drop_involved(&op);
                for extra in take_panics() {
                    eprintln!("cch: panic while dropping a handle after a panic: {extra}");
                }
                panic_line(&msgs.join(" | "))
            }
        }
    }

    fn exec(&mut self, op: &Value) -> Res<Value> {
        let name = req_str(op, "op")?;
        let asy = is_async(op)?;
        if asy && !HAVE_ASYNC {
            return Err(Fail::Unsupported);
        }
        let cache: &str = self.cache.as_str();
        let cpath: &Path = Path::new(cache);

        match name {
            "ping" => {
                timed(|| ());
                Ok(Value::Null)
            }

            // ---------------------------------------------------- one-shot writes
            "write" => {
                let key = req_key(op)?;
                let data = req_hex(op, "data")?;
                let sri = match opt_algo(op)? {
                    None => call!(
                        self,
                        asy,
                        cacache::write_sync(cache, &key, &data),
                        cacache::write(cache, &key, &data)
                    ),
                    Some(a) => call!(
                        self,
                        asy,
                        cacache::write_sync_with_algo(a, cache, &key, &data),
                        cacache::write_with_algo(a, cache, &key, &data)
                    ),
                }?;
                Ok(json!(sri.to_string()))
            }
            "write_hash" => {
                let data = req_hex(op, "data")?;
                let sri = match opt_algo(op)? {
                    None => call!(
                        self,
                        asy,
                        cacache::write_hash_sync(cache, &data),
                        cacache::write_hash(cache, &data)
                    ),
                    Some(a) => call!(
                        self,
                        asy,
                        cacache::write_hash_sync_with_algo(a, cache, &data),
                        cacache::write_hash_with_algo(a, cache, &data)
                    ),
                }?;
                Ok(json!(sri.to_string()))
            }

            // ---------------------------------------------------- streamed writer
            "open" => {
                let id = req_id(op, "w")?;
                if self.writers.contains_key(&id) {
                    return handle_in_use("w", id);
                }
                let opts = build_opts(op)?;
                let h = match opt_key(op)? {
                    Some(key) => open_handle!(
                        self,
                        asy,
                        W,
                        opts.open_sync(cache, &key),
                        opts.open(cache, &key)
                    ),
                    None => open_handle!(
                        self,
                        asy,
                        W,
                        opts.open_hash_sync(cache),
                        opts.open_hash(cache)
                    ),
                };
                self.writers.insert(id, h);
                Ok(Value::Null)
            }
            "wchunk" => {
                let id = req_id(op, "w")?;
                let data = req_hex(op, "data")?;
                let all = match req_str(op, "mode")? {
                    "write_all" => true,
                    "write" => false,
                    other => return bad(format!("unknown mode `{other}`")),
                };
                let w = match self.writers.get_mut(&id) {
                    Some(w) => w,
                    None => return no_handle("w", id),
                };
                let count: Option<usize> = match w {
                    W::Sync(w) => {
                        if all {
                            timed(|| w.write_all(&data))?;
                            None
                        } else {
                            Some(timed(|| w.write(&data))?)
                        }
                    }
                    #[cfg(any(feature = "astd", feature = "tok"))]
                    W::Async(w) => {
                        let rt = &self.rt;
                        if all {
                            timed(|| rt.block_on(w.write_all(&data)))?;
                            None
                        } else {
                            Some(timed(|| rt.block_on(w.write(&data)))?)
                        }
                    }
                };
                Ok(match count {
                    Some(n) => json!(n),
                    None => Value::Null,
                })
            }
            // start a write, poll it once and drop the future (cancellation): "pending" => null, ready => the count
            "wabandon" => {
                let id = req_id(op, "w")?;
                #[allow(unused_variables)]
                let data = req_hex(op, "data")?;
                let w = match self.writers.get_mut(&id) {
                    Some(w) => w,
                    None => return no_handle("w", id),
                };
                match w {
                    W::Sync(_) => Err(Fail::Unsupported),
                    #[cfg(any(feature = "astd", feature = "tok"))]
                    W::Async(w) => {
                        let rt = &self.rt;
                        // the only blocking thread (CCH_SINGLE=1) is held while the write is polled once: a write that
                        // needs the blocking pool is then certainly still pending when its future is dropped
                        let (tx, rx) = mpsc::channel::<()>();
                        rt.gate(rx);
                        std::thread::sleep(Duration::from_millis(1));
                        let polled = timed(|| {
                            rt.block_on(async {
                                let mut fut = Box::pin(w.write(&data));
                                futures::poll!(fut.as_mut())
                            })
                        });
                        let _ = tx.send(());
                        // let the abandoned blocking task finish before the next call looks at the writer
                        rt.barrier();
                        std::thread::sleep(Duration::from_millis(2));
                        match polled {
                            std::task::Poll::Pending => Ok(Value::Null),
                            std::task::Poll::Ready(Ok(n)) => Ok(json!(n)),
                            std::task::Poll::Ready(Err(e)) => Err(e.into()),
                        }
                    }
                }
            }
            "wflush" => {
                let id = req_id(op, "w")?;
                let w = match self.writers.get_mut(&id) {
                    Some(w) => w,
                    None => return no_handle("w", id),
                };
                match w {
                    W::Sync(w) => timed(|| w.flush())?,
                    #[cfg(any(feature = "astd", feature = "tok"))]
                    W::Async(w) => {
                        let rt = &self.rt;
                        timed(|| rt.block_on(w.flush()))?
                    }
                }
                Ok(Value::Null)
            }
            "commit" => {
                let id = req_id(op, "w")?;
                let w = match self.writers.remove(&id) {
                    Some(w) => w,
                    None => return no_handle("w", id),
                };
                let sri = match w {
                    W::Sync(w) => timed(|| w.commit())?,
                    #[cfg(any(feature = "astd", feature = "tok"))]
                    W::Async(w) => {
                        let rt = &self.rt;
                        timed(|| rt.block_on(w.commit()))?
                    }
                };
                Ok(json!(sri.to_string()))
            }
            "drop" => {
                let id = req_id(op, "w")?;
                let w = match self.writers.remove(&id) {
                    Some(w) => w,
                    None => return no_handle("w", id),
                };
                self.drop_writer(w);
                Ok(Value::Null)
            }

            // ---------------------------------------------------- raw index access
            "insert" => {
                let key = req_key(op)?;
                let opts = build_opts(op)?;
                let sri = call!(
                    self,
                    asy,
                    cacache::index::insert(cpath, &key, opts),
                    cacache::index::insert_async(cpath, &key, opts)
                )?;
                Ok(json!(sri.to_string()))
            }
            "delete" => {
                let key = req_key(op)?;
                call!(
                    self,
                    asy,
                    cacache::index::delete(cpath, &key),
                    cacache::index::delete_async(cpath, &key)
                )?;
                Ok(Value::Null)
            }
            "find" => {
                let key = req_key(op)?;
                let m = call!(
                    self,
                    asy,
                    cacache::index::find(cpath, &key),
                    cacache::index::find_async(cpath, &key)
                )?;
                Ok(opt_meta_json(&m))
            }
            "metadata" => {
                let key = req_key(op)?;
                let m = call!(
                    self,
                    asy,
                    cacache::metadata_sync(cache, &key),
                    cacache::metadata(cache, &key)
                )?;
                Ok(opt_meta_json(&m))
            }

            // ---------------------------------------------------- one-shot reads
            "read" => {
                let key = req_key(op)?;
                let data = call!(
                    self,
                    asy,
                    cacache::read_sync(cache, &key),
                    cacache::read(cache, &key)
                )?;
                Ok(json!(hex::encode(data)))
            }
            "read_hash" => {
                let sri = req_sri(op)?;
                let data = call!(
                    self,
                    asy,
                    cacache::read_hash_sync(cache, &sri),
                    cacache::read_hash(cache, &sri)
                )?;
                Ok(json!(hex::encode(data)))
            }

            // ---------------------------------------------------- streamed reader
            "ropen" => {
                let id = req_id(op, "r")?;
                if self.readers.contains_key(&id) {
                    return handle_in_use("r", id);
                }
                let key = req_key(op)?;
                let h = open_handle!(
                    self,
                    asy,
                    R,
                    cacache::SyncReader::open(cache, &key),
                    cacache::Reader::open(cache, &key)
                );
                self.readers.insert(id, h);
                Ok(Value::Null)
            }
            "ropen_hash" => {
                let id = req_id(op, "r")?;
                if self.readers.contains_key(&id) {
                    return handle_in_use("r", id);
                }
                let sri = req_sri(op)?;
                let h = open_handle!(
                    self,
                    asy,
                    R,
                    cacache::SyncReader::open_hash(cache, sri),
                    cacache::Reader::open_hash(cache, sri)
                );
                self.readers.insert(id, h);
                Ok(Value::Null)
            }
            "rchunk" => {
                let id = req_id(op, "r")?;
                let n = req_usize(op, "n")?;
                let r = match self.readers.get_mut(&id) {
                    Some(r) => r,
                    None => return no_handle("r", id),
                };
                let mut buf = vec![0u8; n];
                let got = match r {
                    R::Sync(r) => timed(|| r.read(&mut buf[..n]))?,
                    #[cfg(any(feature = "astd", feature = "tok"))]
                    R::Async(r) => {
                        let rt = &self.rt;
                        timed(|| rt.block_on(r.read(&mut buf[..n])))?
                    }
                };
                Ok(json!(hex::encode(&buf[..got])))
            }
            "rall" => {
                let id = req_id(op, "r")?;
                let r = match self.readers.get_mut(&id) {
                    Some(r) => r,
                    None => return no_handle("r", id),
                };
                let mut out: Vec<u8> = Vec::new();
                match r {
                    R::Sync(r) => timed(|| r.read_to_end(&mut out))?,
                    #[cfg(any(feature = "astd", feature = "tok"))]
                    R::Async(r) => {
                        let rt = &self.rt;
                        timed(|| rt.block_on(r.read_to_end(&mut out)))?
                    }
                };
                Ok(json!(hex::encode(out)))
            }
            "rcheck" => {
                let id = req_id(op, "r")?;
                let r = match self.readers.remove(&id) {
                    Some(r) => r,
                    None => return no_handle("r", id),
                };
                let algo = match r {
                    R::Sync(r) => timed(|| r.check())?,
                    #[cfg(any(feature = "astd", feature = "tok"))]
                    R::Async(r) => timed(|| r.check())?,
                };
                Ok(json!(algo_name(algo)))
            }
            "rdrop" => {
                let id = req_id(op, "r")?;
                let r = match self.readers.remove(&id) {
                    Some(r) => r,
                    None => return no_handle("r", id),
                };
                self.drop_reader(r);
                Ok(Value::Null)
            }

            // ---------------------------------------------------- extraction
            "copy" => {
                let hash = by_hash(op)?;
                let checked = opt_bool(op, "checked", true)?;
                let to = self.dest(op)?;
                let n: u64 = if hash {
                    let sri = req_sri(op)?;
                    if checked {
                        call!(
                            self,
                            asy,
                            cacache::copy_hash_sync(cache, &sri, &to),
                            cacache::copy_hash(cache, &sri, &to)
                        )?
                    } else {
                        call!(
                            self,
                            asy,
                            cacache::copy_hash_unchecked_sync(cache, &sri, &to),
                            cacache::copy_hash_unchecked(cache, &sri, &to)
                        )?
                    }
                } else {
                    let key = req_key(op)?;
                    if checked {
                        call!(
                            self,
                            asy,
                            cacache::copy_sync(cache, &key, &to),
                            cacache::copy(cache, &key, &to)
                        )?
                    } else {
                        call!(
                            self,
                            asy,
                            cacache::copy_unchecked_sync(cache, &key, &to),
                            cacache::copy_unchecked(cache, &key, &to)
                        )?
                    }
                };
                Ok(json!(n))
            }
            "hard_link" => {
                let hash = by_hash(op)?;
                let checked = opt_bool(op, "checked", true)?;
                if asy && (hash || !checked) {
                    return Err(Fail::Unsupported);
                }
                let to = self.dest(op)?;
                if hash {
                    let sri = req_sri(op)?;
                    if checked {
                        timed(|| cacache::hard_link_hash_sync(cache, &sri, &to))?
                    } else {
                        timed(|| cacache::hard_link_hash_unchecked_sync(cache, &sri, &to))?
                    }
                } else {
                    let key = req_key(op)?;
                    if checked {
                        call!(
                            self,
                            asy,
                            cacache::hard_link_sync(cache, &key, &to),
                            cacache::hard_link(cache, &key, &to)
                        )?
                    } else {
                        timed(|| cacache::hard_link_unchecked_sync(cache, &key, &to))?
                    }
                }
                Ok(Value::Null)
            }
            "reflink" => {
                let hash = by_hash(op)?;
                let checked = opt_bool(op, "checked", true)?;
                if asy && hash && !checked {
                    return Err(Fail::Unsupported);
                }
                let to = self.dest(op)?;
                if hash {
                    let sri = req_sri(op)?;
                    if checked {
                        call!(
                            self,
                            asy,
                            cacache::reflink_hash_sync(cache, &sri, &to),
                            cacache::reflink_hash(cache, &sri, &to)
                        )?
                    } else {
                        timed(|| cacache::reflink_hash_unchecked_sync(cache, &sri, &to))?
                    }
                } else {
                    let key = req_key(op)?;
                    if checked {
                        call!(
                            self,
                            asy,
                            cacache::reflink_sync(cache, &key, &to),
                            cacache::reflink(cache, &key, &to)
                        )?
                    } else {
                        call!(
                            self,
                            asy,
                            cacache::reflink_unchecked_sync(cache, &key, &to),
                            cacache::reflink_unchecked(cache, &key, &to)
                        )?
                    }
                }
                Ok(Value::Null)
            }
            "exists" => {
                let sri = req_sri(op)?;
                let b: bool = call!(
                    self,
                    asy,
                    cacache::exists_sync(cache, &sri),
                    cacache::exists(cache, &sri)
                );
                Ok(json!(b))
            }

            // ---------------------------------------------------- removal
            "remove" => {
                let key = req_key(op)?;
                call!(
                    self,
                    asy,
                    cacache::remove_sync(cache, &key),
                    cacache::remove(cache, &key)
                )?;
                Ok(Value::Null)
            }
            "remove_opts" => {
                let key = req_key(op)?;
                let fully = opt_bool(op, "fully", false)?;
                call!(
                    self,
                    asy,
                    cacache::RemoveOpts::new()
                        .remove_fully(fully)
                        .remove_sync(cache, &key),
                    cacache::RemoveOpts::new()
                        .remove_fully(fully)
                        .remove(cache, &key)
                )?;
                Ok(Value::Null)
            }
            "remove_hash" => {
                let sri = req_sri(op)?;
                call!(
                    self,
                    asy,
                    cacache::remove_hash_sync(cache, &sri),
                    cacache::remove_hash(cache, &sri)
                )?;
                Ok(Value::Null)
            }
            "clear" => {
                call!(self, asy, cacache::clear_sync(cache), cacache::clear(cache))?;
                Ok(Value::Null)
            }

            // ---------------------------------------------------- process environment (fault / layout scenarios)
            // change the working directory ("to": absolute path, or a name below the caller's directory)
            "chdir" => {
                let to = req_str(op, "to")?;
                let dir = if to.starts_with('/') { PathBuf::from(to) } else { self.ext.join(to) };
                match std::env::set_current_dir(&dir) {
                    Ok(()) => Ok(Value::Null),
                    Err(e) => bad(format!("set_current_dir({}): {e}", dir.display())),
                }
            }
            // soft file-size limit of the process: a write that crosses it is a genuine short write, the next one
            // fails with EFBIG (SIGXFSZ ignored); "n": null lifts the limit again
            "rlimit_fsize" => {
                #[repr(C)]
                struct RLimit {
                    cur: u64,
                    max: u64,
                }
                extern "C" {
                    fn getrlimit(resource: i32, rlim: *mut RLimit) -> i32;
                    fn setrlimit(resource: i32, rlim: *const RLimit) -> i32;
                    fn signal(signum: i32, handler: usize) -> usize;
                }
                const RLIMIT_FSIZE: i32 = 1;
                const SIGXFSZ: i32 = 25;
                const SIG_IGN: usize = 1;
                let n = op.get("n").and_then(|v| v.as_u64());
                let mut lim = RLimit { cur: 0, max: 0 };
                let rc = unsafe {
                    signal(SIGXFSZ, SIG_IGN);
                    getrlimit(RLIMIT_FSIZE, &mut lim)
                };
                if rc != 0 {
                    return bad("getrlimit failed".to_string());
                }
                lim.cur = match n {
                    Some(n) => n.min(lim.max),
                    None => lim.max,
                };
                if unsafe { setrlimit(RLIMIT_FSIZE, &lim) } != 0 {
                    return bad("setrlimit failed".to_string());
                }
                Ok(Value::Null)
            }

            // ---------------------------------------------------- listing
            "list" => {
                if asy {
                    return Err(Fail::Unsupported); // the library has no async list
                }
                let items: Vec<cacache::Result<cacache::Metadata>> =
                    timed(|| cacache::list_sync(cache).collect());
                let arr: Vec<Value> = items
                    .iter()
                    .map(|it| match it {
                        Ok(m) => meta_json(m),
                        Err(e) => json!({ "err": classify(e).e }),
                    })
                    .collect();
                Ok(Value::Array(arr))
            }

            // ---------------------------------------------------- link_to feature
            #[cfg(feature = "link_to")]
            "link_to" => {
                let target = self.link_target(op)?;
                let sri = match opt_key(op)? {
                    Some(key) => call!(
                        self,
                        asy,
                        cacache::link_to_sync(cache, &key, &target),
                        cacache::link_to(cache, &key, &target)
                    ),
                    None => call!(
                        self,
                        asy,
                        cacache::link_to_hash_sync(cache, &target),
                        cacache::link_to_hash(cache, &target)
                    ),
                }?;
                Ok(json!(sri.to_string()))
            }
            #[cfg(feature = "link_to")]
            "lopen" => {
                let id = req_id(op, "l")?;
                if self.linkers.contains_key(&id) {
                    return handle_in_use("l", id);
                }
                let plain = opt_bool(op, "plain", false)?;
                let opts = build_opts(op)?;
                let key = opt_key(op)?;
                let target = self.link_target(op)?;
                let h = match (plain, key) {
                    (true, Some(key)) => open_handle!(
                        self,
                        asy,
                        L,
                        cacache::SyncToLinker::open(cache, &key, &target),
                        cacache::ToLinker::open(cache, &key, &target)
                    ),
                    (true, None) => open_handle!(
                        self,
                        asy,
                        L,
                        cacache::SyncToLinker::open_hash(cache, &target),
                        cacache::ToLinker::open_hash(cache, &target)
                    ),
                    (false, Some(key)) => open_handle!(
                        self,
                        asy,
                        L,
                        opts.link_to_sync(cache, &key, &target),
                        opts.link_to(cache, &key, &target)
                    ),
                    (false, None) => open_handle!(
                        self,
                        asy,
                        L,
                        opts.link_to_hash_sync(cache, &target),
                        opts.link_to_hash(cache, &target)
                    ),
                };
                self.linkers.insert(id, h);
                Ok(Value::Null)
            }
            #[cfg(feature = "link_to")]
            "lchunk" => {
                let id = req_id(op, "l")?;
                let n = req_usize(op, "n")?;
                let l = match self.linkers.get_mut(&id) {
                    Some(l) => l,
                    None => return no_handle("l", id),
                };
                let mut buf = vec![0u8; n];
                let got = match l {
                    L::Sync(l) => timed(|| l.read(&mut buf[..n]))?,
                    #[cfg(any(feature = "astd", feature = "tok"))]
                    L::Async(l) => {
                        let rt = &self.rt;
                        timed(|| rt.block_on(l.read(&mut buf[..n])))?
                    }
                };
                Ok(json!(hex::encode(&buf[..got])))
            }
            #[cfg(feature = "link_to")]
            "lcommit" => {
                let id = req_id(op, "l")?;
                let l = match self.linkers.remove(&id) {
                    Some(l) => l,
                    None => return no_handle("l", id),
                };
                let sri = match l {
                    L::Sync(l) => timed(|| l.commit())?,
                    #[cfg(any(feature = "astd", feature = "tok"))]
                    L::Async(l) => {
                        let rt = &self.rt;
                        timed(|| rt.block_on(l.commit()))?
                    }
                };
                Ok(json!(sri.to_string()))
            }
            #[cfg(feature = "link_to")]
            "ldrop" => {
                let id = req_id(op, "l")?;
                let l = match self.linkers.remove(&id) {
                    Some(l) => l,
                    None => return no_handle("l", id),
                };
                self.drop_linker(l);
                Ok(Value::Null)
            }
            #[cfg(not(feature = "link_to"))]
            "link_to" | "lopen" | "lchunk" | "lcommit" | "ldrop" => Err(Fail::Unsupported),

            other => bad(format!("unknown op `{other}`")),
        }
    }
}

// ---------------------------------------------------------------------------
// Main thread: stdin -> worker -> stdout, with the watchdog
// ---------------------------------------------------------------------------

fn emit(line: &str) {
    let out = std::io::stdout();
    let mut out = out.lock();
    let _ = out.write_all(line.as_bytes());
    let _ = out.write_all(b"\n");
    let _ = out.flush();
}

fn main() {
    let args: Vec<String> = std::env::args().collect();
    if args.len() != 3 {
        eprintln!("usage: {} <cache_dir> <ext_dir>", args[0]);
        std::process::exit(2);
    }
    let cache = args[1].clone();
    let ext = PathBuf::from(&args[2]);

    let timeout_ms: u64 = std::env::var("CCH_TIMEOUT_MS")
        .ok()
        .and_then(|s| s.trim().parse().ok())
        .unwrap_or(20000);
    let single = std::env::var("CCH_SINGLE").map(|v| v == "1").unwrap_or(false);

    // Must happen before the async-std runtime is touched for the first time
    // (no other thread exists yet).
    #[cfg(feature = "astd")]
    if single {
        std::env::set_var("ASYNC_STD_THREAD_COUNT", "1");
        std::env::set_var("BLOCKING_MAX_THREADS", "1");
    }

    install_panic_hook();

    let (op_tx, op_rx) = mpsc::channel::<String>();
    let (res_tx, res_rx) = mpsc::channel::<String>();

    let worker = std::thread::Builder::new()
        .name("cch-worker".to_string())
        .spawn(move || {
            let mut st = State::new(cache, ext, single);
            for line in op_rx {
                let out = st.handle(&line);
                if res_tx.send(out).is_err() {
                    break;
                }
            }
            st.shutdown();
        });
    if let Err(e) = worker {
        eprintln!("cch: cannot spawn the worker thread: {e}");
        std::process::exit(2);
    }

    let timeout = Duration::from_millis(timeout_ms);
    let stdin = std::io::stdin();
    for line in stdin.lock().lines() {
        let line = match line {
            Ok(l) => l,
            Err(e) => {
                eprintln!("cch: stdin: {e}");
                break;
            }
        };
        if line.trim().is_empty() {
            continue;
        }
        if op_tx.send(line).is_err() {
            emit(&panic_line("worker thread is gone"));
            std::process::exit(4);
        }
        match res_rx.recv_timeout(timeout) {
            Ok(out) => emit(&out),
            Err(mpsc::RecvTimeoutError::Timeout) => {
                emit("{\"r\":\"hang\"}");
                std::process::exit(3);
            }
            Err(mpsc::RecvTimeoutError::Disconnected) => {
                emit(&panic_line("worker thread died"));
                std::process::exit(4);
            }
        }
    }

    // EOF: let the worker drop the remaining handles (bounded), then leave.
    drop(op_tx);
    let _ = res_rx.recv_timeout(timeout); // returns Disconnected once the worker is done
    std::process::exit(0);
}
