#!/bin/sh
# Run once after a fresh restore (offline): build the Coq development, extract and compile the model driver,
# build the harness flavours against /repo's current tree.
set -e
export CARGO_NET_OFFLINE=true
cd /verif/coq && coq_makefile -f _CoqProject -o Makefile >/dev/null && timeout 3000 make -j16
mkdir -p /verif/.build/ocaml && cd /verif/.build/ocaml
coqc -Q /verif/coq/theories CC /verif/coq/Extract.v
rm -f /verif/coq/Extract.vo /verif/coq/Extract.glob /verif/coq/.Extract.aux
cp /verif/ocaml/driver.ml . && ocamlfind ocamlopt -O2 -w -a model.mli model.ml driver.ml -o model_driver
for f in sync astd tok; do /verif/harness/build.sh $f; done
echo setup done
