#!/bin/bash
# seedeval.sh <seed> [property...] : evaluate a seeded change WITHOUT touching /repo: a scratch worktree of /repo's HEAD gets
# /verif/seeded/<seed>/patch.diff (patch.rebased.diff when present), the harness is built against it into a scratch build
# dir, the named checks (default: the seed's own property) run in the quick tier with evidence/replays redirected, one
# line per check is appended to the seed's eval.log, and worktree + build output are removed.
seed=$1; shift
props="$@"; [ -z "$props" ] && props=${seed:0:3}
wt=/tmp/seedwt-$seed; impl=/tmp/seedimpl-$seed
rm -rf $impl; git -C /repo worktree remove --force $wt 2>/dev/null; rm -rf $wt
git -C /repo worktree add -q --detach $wt HEAD || exit 2
pf=/verif/seeded/$seed/patch.diff; [ -f /verif/seeded/$seed/patch.rebased.diff ] && pf=/verif/seeded/$seed/patch.rebased.diff
if ! git -C $wt apply $pf 2>/dev/null; then
  if ! (cd $wt && patch -p1 -s --no-backup-if-mismatch < $pf >/dev/null 2>&1); then echo "$seed: patch does not apply"; git -C /repo worktree remove --force $wt; exit 2; fi
fi
mkdir -p $impl/out; [ -f $wt/Cargo.lock ] || cp /repo/Cargo.lock $wt/Cargo.lock
[ -d /verif/.build/cargo ] && cp -r /verif/.build/cargo $impl/cargo
cd /verif
for p in $props; do
  out=$(VERIF_REPO=$wt VERIF_IMPL_DIR=$impl VERIF_OUT=$impl/out VERIF_JOBS=${VERIF_JOBS:-8} ./check $p --tier ${TIER:-quick} --seed-eval 2>$impl/err.log | grep -E "^(VIOLATION|OK|KNOWN|ERROR)" | head -3 | tr '\n' ' ')
  expl=""
  f=$(echo "$out" | sed -n 's/.*replay=\([^ ]*\).*/\1/p'); [ -n "$f" ] && [ -f "$f" ] && expl=$(python3 -c "import json,sys;print((json.load(open('$f')).get('explanation') or '')[:200])")
  echo "$seed $p: $out | $expl"
  echo "$(date -u +%FT%TZ) tier=${TIER:-quick} $p: $out | $expl" >> /verif/seeded/$seed/eval.log
done
[ -n "$KEEP" ] || { git -C /repo worktree remove --force $wt; rm -rf $impl; }
