#!/bin/bash
# seedeval.sh <seed> [property...] : apply /verif/seeded/<seed>/patch.diff to /repo, run the named checks (default: the
# seed's own property) in the quick tier, print one line per check, and undo the patch straight afterwards.
seed=$1; shift
props="$@"; [ -z "$props" ] && props=${seed:0:3}
cd /repo || exit 2
if [ -n "$(git status --porcelain --untracked-files=no)" ]; then echo "/repo is dirty"; exit 2; fi
git apply /verif/seeded/$seed/patch.diff 2>/dev/null || { echo "$seed: patch does not apply"; exit 2; }
cd /verif
for p in $props; do
  extra=""; [ -f /verif/coq/props/$p.v ] || extra="--no-gate"
  out=$(./check $p --tier ${TIER:-quick} $extra 2>/dev/null | grep -E "^(VIOLATION|OK|KNOWN|ERROR)" | head -3 | tr '\n' ' ')
  echo "$seed $p: $out"
  echo "$(date -u +%FT%TZ) tier=${TIER:-quick} $p: $out" >> /verif/seeded/$seed/eval.log
done
git -C /repo checkout -- . 
