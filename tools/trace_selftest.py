#!/usr/bin/env python3
"""Self-test of py/cc/trace.py (strace driven observation / kill / fault injection of the cch harness)."""
import os, shutil, sys, time
sys.path.insert(0, "/verif/py")
from cc import trace, ops as ccops
from cc.procs import ImplProc

JOBS = int(os.environ.get("JOBS", "8"))
KEY, DATA = "6b", "68656c6c6f"
BUCKET_PREFIX = "index-v5/"

def fl_of(flavour):
    return "sync" if flavour == "sync" else "async"

def wop(flavour):
    return {"op": "write", "fl": fl_of(flavour), "key": KEY, "data": DATA, "algo": "sha256"}

def empty_state(cache, ext):
    pass

def written_state(flavour):
    def mk(cache, ext):
        p = ImplProc(flavour, cache, ext, env={"CCH_SINGLE": "1"})
        r = p.op(wop(flavour))
        p.close()
        assert r["r"] == "ok", r
    return mk

def dump_after(cache, ext, *rest):
    return ccops.dump_real(cache, ext)

def is_bucket_write(c):
    return c["name"] in trace.WRITES and c.get("fdpath") and c["fdpath"][0] == "c" and c["fdpath"][1].startswith(BUCKET_PREFIX)

def short(r):
    if r is None:
        return "DEAD"
    s = r.get("r")
    if s == "err":
        s += ":%s/%s" % (r.get("e"), r.get("kind"))
    if s == "panic":
        s += ":" + str(r.get("msg"))[:50]
    return s

def check_not_executed(r):
    """the dump taken after a kill on entry to r['call'] must not show the effect of that call"""
    K, st = r["killed_before"], r["after"]
    locs = {e[0]: e for e in st}
    loc = lambda pr: "%s:%s" % pr
    n = K["name"]
    if n.startswith("mkdir"):
        assert loc(K["paths"][0]) not in locs, (K, st)
    elif n.startswith("rename"):
        assert loc(K["paths"][0]) in locs and loc(K["paths"][1]) not in locs, (K, st)
    elif n in trace.OPENS and "O_EXCL" in K["flags"]:
        assert loc(K["paths"][0]) not in locs, (K, st)
    elif n in trace.WRITES:
        e = locs[loc(K["fdpath"])]
        assert e[1] == "file" and not e[2].endswith(K["buf"]), (K, e)
        if r["torn"] is None and "O_APPEND" not in (r["call"].get("flags") or ""):
            pass

def test1():
    print("== 1. trace of a sync write on an empty cache")
    d = os.path.join(trace.SCRATCH, "selftest-1")
    shutil.rmtree(d, ignore_errors=True)
    os.makedirs(d + "/c"); os.makedirs(d + "/e")
    try:
        t = time.time()
        r = trace.trace_ops("sync", d + "/c", d + "/e", [wop("sync"), {"op": "read", "fl": "sync", "key": KEY}])
        dt = time.time() - t
        assert [x["r"] for x in r["results"]] == ["ok", "ok"], r["results"]
        assert r["results"][1]["v"] == DATA
        lo, hi = r["spans"][0]
        mut = [c for c in r["calls"][lo:hi] if c["mutating"]]
        for c in mut:
            print("   ", trace.brief(c))
        bw = [c for c in mut if c["name"] == "write" and is_bucket_write(c)]
        assert len(bw) == 1, bw
        opens = [c for c in r["calls"][lo:hi] if c["name"] == "openat" and c["paths"] == [bw[0]["fdpath"]]]
        assert len(opens) == 1 and "O_APPEND" in opens[0]["flags"] and opens[0].get("maycreate"), opens
        assert bytes.fromhex(bw[0]["data"]).startswith(b"\n"), bw[0]["data"][:20]
        rn = [c for c in mut if c["name"].startswith("rename")]
        assert len(rn) == 1 and rn[0]["paths"][0][0] == "c" and rn[0]["paths"][0][1].startswith("tmp/") \
            and rn[0]["paths"][1][1].startswith("content-v2/"), rn
        assert not any(c["mutating"] for c in r["calls"][r["spans"][1][0]:r["spans"][1][1]]), "read op mutates?"
        assert all(c["mutating"] is False for c in r["calls"] if c["ret"] is not None and c["ret"] < 0)
        assert trace.outside_mutations(r["calls"]) == []
        assert trace.outside_mutations(r["calls"], allow_ext=False) == []
        # thread_ord is what strace counts
        seen = {}
        for c in r["all_calls"]:
            k = (c["tid"], c["name"]); seen[k] = seen.get(k, 0) + 1
            assert c["thread_ord"] == seen[k]
        print("   %d calls, %d mutating in the write, spans %s, %.2fs; outside_mutations: []" % (len(r["calls"]), len(mut), r["spans"], dt))
        trace.cleanup(r)
        assert not os.path.exists(r["log"])
    finally:
        shutil.rmtree(d, ignore_errors=True)

def test2():
    print("== 2. kill_sweep over a write (torn index append)")
    out = {}
    for flavour in ("sync", "astd", "tok"):
        info = {}
        t = time.time()
        res = trace.kill_sweep(flavour, empty_state, [wop(flavour)], 0, after=dump_after, torn="all",
                               torn_select=is_bucket_write, jobs=JOBS, info=info)
        dt = time.time() - t
        ok = [r for r in res if r["ok"]]
        sk = [r for r in res if not r["ok"]]
        for r in res:
            assert r["ok"] or r["skipped"], r
            if r["ok"]:
                assert r["killed_before"]["ret"] is None
                assert trace.signature(r["killed_before"]) == trace.signature(r["call"])
                assert isinstance(r["after"], list)
        # states must be pairwise consistent: the state killed before call i+1 shows the effect of call i
        untorn = [r for r in ok if r["torn"] is None]
        torn = [r for r in ok if r["torn"] is not None]
        bw = [r for r in untorn if is_bucket_write(r["call"])]
        if bw:
            n = len(bw[0]["killed_before"]["buf"]) // 2
            assert len(torn) == n - 1, (len(torn), n)
            # torn state k: bucket file holds exactly the first k bytes of the entry
            full = bytes.fromhex(bw[0]["killed_before"]["buf"])
            for r in torn:
                loc = "c:" + r["killed_before"]["fdpath"][1]
                ent = [e for e in r["after"] if e[0] == loc]
                assert len(ent) == 1, (loc, r["after"])
        for r in ok:
            if r["torn"] is None:
                check_not_executed(r)
            else:       # torn state k: the file ends with exactly the first k bytes of the entry
                e = [x for x in r["after"] if x[0] == "c:" + r["killed_before"]["fdpath"][1]][0]
                assert e[2] == r["killed_before"]["buf"][:2 * r["torn"]], (r["torn"], e)
        canon = [ccops._canon_tmp(r["after"]) for r in untorn]
        for a, b, r in zip(canon, canon[1:], untorn[1:]):
            assert a != b, ("two successive kill points show the same tree", trace.brief(r["call"]))
        first = untorn[0]
        assert first["call"]["name"] == "mkdir" and first["after"] == [], first["after"]
        att = sum(r.get("attempts", 0) for r in untorn) + sum(r.get("attempts", 0) for r in sk)
        print("   %-5s %d candidate calls -> %d states (%d kill points ok, %d torn), %d skipped; %d strace runs; %.1fs"
              % (flavour, info["candidates"], len(ok), len(untorn), len(torn), len(sk), att + 1, dt))
        modes = {}
        for r in untorn:
            modes[r["mode"]] = modes.get(r["mode"], 0) + 1
        iso = sorted({str(r["only"]) for r in untorn})
        print("         targeting modes used: %s; injecting strace attached only to thread(s): %s" % (modes, ", ".join(iso)))
        for r in sk:
            print("      skipped", trace.brief(r["call"]), "::", r["skipped"])
        out[flavour] = dt
    return out

def test3():
    print("== 3. fault_sweep")
    out = {}
    for flavour, opname, errno in (("sync", "read", "EIO"), ("sync", "write", "ENOSPC"), ("astd", "read", "EIO")):
        if opname == "read":
            mk, op = written_state(flavour), {"op": "read", "fl": fl_of(flavour), "key": KEY}
        else:
            mk, op = empty_state, wop(flavour)
        info = {}
        t = time.time()
        res = trace.fault_sweep(flavour, mk, [op, {"op": "metadata", "fl": fl_of(flavour), "key": KEY}], 0, errnos=(errno,),
                                after=dump_after, jobs=JOBS, info=info)
        dt = time.time() - t
        print("   %s %s with %s: %d candidates, %.1fs" % (flavour, opname, errno, info["candidates"], dt))
        for r in res:
            assert r["ok"] or r["skipped"], r
            if r["ok"]:
                k = r["injected_at"]
                assert k["injected"] and k["errno"] == errno and k["ret"] == -1
                print("      %-88s -> %s%s | then metadata: %s" % (trace.brief(r["call"])[:88], short(r["result"]),
                      " DIED" if r["died"] else "", short(r["results"][1])))
            else:
                print("      %-88s SKIPPED %s" % (trace.brief(r["call"])[:88], r["skipped"]))
        out[(flavour, opname)] = dt
    return out

def test3b():
    print("== 3b. a hang is reported, not hidden (delay injection 3 s, CCH_TIMEOUT_MS=1000); driver timeout kills everything")
    d = os.path.join(trace.SCRATCH, "selftest-3b")
    try:
        for kind in ("hang", "timeout"):
            shutil.rmtree(d, ignore_errors=True)
            os.makedirs(d + "/c"); os.makedirs(d + "/e")
            t = time.time()
            if kind == "hang":
                r = trace.trace_ops("sync", d + "/c", d + "/e", [wop("sync"), {"op": "list"}], env={"CCH_TIMEOUT_MS": "1000"},
                                    inject="mkdir:delay_enter=3000000:when=2")
                assert r["results"] == [{"r": "hang"}, None] and r["exit"] == 3, (r["results"], r["exit"])
            else:
                r = trace.trace_ops("tok", d + "/c", d + "/e", [wop("tok"), {"op": "list"}], timeout=2,
                                    inject="mkdir:delay_enter=30000000:when=2")
                assert r["results"] == [None, None] and r["killed_by"] == "SIGKILL" and r["info"]["timed_out"]
                assert time.time() - t < 6
            print("   %-7s results=%s exit=%s %.1fs" % (kind, [short(x) for x in r["results"]], r["exit"], time.time() - t))
            trace.cleanup(r)
    finally:
        shutil.rmtree(d, ignore_errors=True)

def main():
    t0 = time.time()
    os.makedirs(trace.SCRATCH, exist_ok=True)
    test1()
    k = test2()
    f = test3()
    test3b()
    print("== 4. timings (jobs=%d)" % JOBS)
    for fl, dt in k.items():
        print("   kill_sweep write %-5s %.1fs %s" % (fl, dt, "(target < 60s: OK)" if dt < 60 else "(TOO SLOW)"))
        assert dt < 60
    for (fl, o), dt in f.items():
        print("   fault_sweep %s %-5s %.1fs" % (o, fl, dt))
    left = [n for n in os.listdir(trace.SCRATCH)]
    assert left == [], "scratch not clean: %r" % left
    print("total %.1fs; scratch clean; SELFTEST OK" % (time.time() - t0))

if __name__ == "__main__":
    main()
