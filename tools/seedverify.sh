#!/bin/bash
# seedverify.sh <ID> <a|b> [dest-letter]: confirm a seeded change in its scratch worktree ($WT, default /tmp/seed-<ID>):
#   demo passes without the patch; with the patch it compiles, the pinned suite passes, the demo fails.
# On success copies patch/demo/notes to /verif/seeded/<ID><x>/ with a meta.json skeleton.
id=$1; x=$2; y=${3:-$2}; wt=${WT:-/tmp/seed-$id}; out=$wt/OUT/$x
cd $wt || exit 2
git checkout -q -- src 2>/dev/null
export CARGO_NET_OFFLINE=true
r0=$(cargo test --offline $FEATURES --test seed_demo_$x 2>&1 | grep -E "^test result" | tail -1)
git apply $out/patch.diff || { echo "$id$x: patch does not apply"; exit 1; }
b1=$(cargo build --offline --no-default-features --features mmap 2>&1 | grep -cE "^error")
b2=$(cargo build --offline --no-default-features --features tokio-runtime,mmap 2>&1 | grep -cE "^error")
mv tests tests.aside
suite=$(cargo test --workspace --no-fail-fast --offline --lib 2>&1 | grep -E "^test result" | head -1)
mv tests.aside tests
r1=$(cargo test --offline $FEATURES --test seed_demo_$x 2>&1 | grep -E "^test result" | tail -1)
git checkout -q -- src
echo "$id$x | without: $r0 | with: $r1 | suite: $suite | builderrs: $b1 $b2"
case "$r0" in *"ok."*) ;; *) echo "$id$x: demo does not pass on the unchanged tree"; exit 1;; esac
case "$r1" in *FAILED*) ;; *) echo "$id$x: demo does not fail with the change"; exit 1;; esac
case "$suite" in *"38 passed; 0 failed"*) ;; *) echo "$id$x: pinned suite not green with the change"; exit 1;; esac
d=/verif/seeded/$id$y; mkdir -p $d
cp $out/patch.diff $d/patch.diff; cp $out/demo.rs $d/demo.rs; cp $out/notes.md $d/notes.md
echo "{\"verify\": \"without: $r0 | with: $r1 | suite: $suite\"}" > $d/verify.json
echo "$id$x -> $id$y: CONFIRMED"
