#!/bin/bash
# cq.sh <file.v> <line>: show the proof state right after <line> of the file
f=$1; n=$2
head -n $n $f > /verif/.build/dbg.v; echo "Show. " >> /verif/.build/dbg.v
cd ${CQDIR:-/verif/coq} && coqc -Q theories CC -Q proofs CC -Q props CC -w -notation-overridden,-deprecated /verif/.build/dbg.v 2>&1 | grep -v "^Closed\|^File.*dbg.v\|Error: There are pending proofs\|characters" | tail -${3:-60}
