#!/bin/bash
# seedall.sh [seed...]: evaluate every seeded change (or the named ones) against its own property's check, sequentially.
cd /verif
seeds="$@"; [ -z "$seeds" ] && seeds=$(ls seeded)
for s in $seeds; do
  p=${s:0:3}
  [ -f /verif/seeded/$s/props ] && p=$(cat /verif/seeded/$s/props)
  tools/seedeval.sh $s $p
done
