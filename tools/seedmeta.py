#!/usr/bin/env python3
"""(re)writes /verif/seeded/<seed>/meta.json from notes.md, verify.json and eval.log"""
import json, os, re, sys
root = "/verif/seeded"
rows = []
for seed in sorted(os.listdir(root)):
    d = os.path.join(root, seed)
    if not os.path.isdir(d) or not os.path.exists(d + "/patch.diff"):
        continue
    notes = open(d + "/notes.md").read() if os.path.exists(d + "/notes.md") else ""
    verify = json.load(open(d + "/verify.json"))["verify"] if os.path.exists(d + "/verify.json") else None
    evals = sorted(l.strip() for l in open(d + "/eval.log")) if os.path.exists(d + "/eval.log") else []
    files = sorted(set(re.findall(r"^\+\+\+ b/(\S+)", open(d + "/patch.diff").read(), flags=re.M)))
    last = {}
    for l in evals:
        m = re.match(r"\S+ tier=(\S+) (C\d+): (.*)", l)
        if m: last[m.group(2)] = ("detected" if "VIOLATION" in m.group(3) else "missed", m.group(1), m.group(3).strip())
    meta = {"seed": seed, "breaks_property": [] if seed.startswith("H") else seed[:3] if not seed.startswith("R") else (open(d + "/props").read().split() if os.path.exists(d + "/props") else []), "touches": files,
            "origin": "harmless change written by hand (equivalent rewrite / extra fsync): every check must stay quiet" if seed.startswith("H") else "independent sub-agent given only the property text and a scratch worktree" if not seed.startswith("R") else "reverted fix commit",
            "needs_to_manifest": (re.search(r"(?is)(needs|manifest|trigger)[^\n]*\n(.{0,600})", notes) or [None, None, ""])[2].strip()[:600] if notes else "",
            "summary": notes.strip().split("\n\n")[0][:800],
            "confirmed": verify, "how_confirmed": "builds; the 38 pinned tests pass with it" if seed.startswith("H") else "tools/seedverify.sh in the scratch worktree: demo passes unchanged, with the patch all feature builds compile, the 38 pinned tests pass and the demo fails",
            "checks_run": evals, "latest_verdict_per_check": last}
    json.dump(meta, open(d + "/meta.json", "w"), indent=1)
    print(seed, {k: v[0] for k, v in last.items()})
    rows.append((seed, files, meta["needs_to_manifest"], last, notes))

def short(t, n):
    t = " ".join(t.replace("|", "/").split())
    return t if len(t) <= n else t[: n - 1] + "…"
with open(root + "/TABLE.md", "w") as out:
    out.write("| seed | touches | what it is / what it needs | verdict per check (quick tier) |\n|---|---|---|---|\n")
    for seed, files, needs, last, notes in rows:
        title = notes.strip().split("\n")[0].lstrip("# ").strip()
        verdicts = []
        for chk, (v, tier, line) in sorted(last.items()):
            if v == "detected":
                verdicts.append(f"{chk}: " + ("tie" if "no-failing-input-found" in line else "concrete"))
            else:
                verdicts.append(f"{chk}: " + ("quiet (as it must be)" if seed.startswith("H") else "missed"))
        out.write(f"| {seed} | {', '.join(f.replace('src/', '') for f in files)} | {short(title, 150)} | {'; '.join(verdicts)} |\n")
